(* Base.v — list toolkit shared by the whole development: slices and offset windows,
   sums, repeat/flat-repeat, masks, rank-of-true.  Definitions first, lemmas after. *)
From Coq Require Import List Arith Lia Bool.
Import ListNotations.

Set Implicit Arguments.

Section Slices.
Variable V : Type.

Definition slice (a b : nat) (l : list V) : list V := firstn (b - a) (skipn a l).

(* adjacent pairs of an offsets window: [o0;o1;o2] -> [(o0,o1);(o1,o2)] *)
Fixpoint adj (o : list nat) : list (nat * nat) :=
  match o with
  | a :: ((b :: _) as t) => (a, b) :: adj t
  | _ => []
  end.

Fixpoint mono (o : list nat) : Prop :=
  match o with
  | a :: ((b :: _) as t) => a <= b /\ mono t
  | _ => True
  end.

Fixpoint monob (o : list nat) : bool :=
  match o with
  | a :: ((b :: _) as t) => (a <=? b) && monob t
  | _ => true
  end.

Lemma monob_spec o : monob o = true <-> mono o.
Proof.
  induction o as [|a [|b t] IH]; simpl; try tauto.
  rewrite andb_true_iff, Nat.leb_le. simpl in IH. tauto.
Qed.

Lemma adj_cons2 a b t : adj (a :: b :: t) = (a, b) :: adj (b :: t).
Proof. reflexivity. Qed.

Lemma length_adj o : length (adj o) = length o - 1.
Proof. induction o as [|a [|b t] IH]; simpl in *; lia. Qed.

Lemma firstn_add : forall n k (m : list V), firstn (n + k) m = firstn n m ++ firstn k (skipn n m).
Proof.
  induction n as [|n IH]; intros k m; simpl; [reflexivity|]. destruct m as [|x m]; simpl.
  - rewrite firstn_nil. reflexivity.
  - rewrite IH. reflexivity.
Qed.

Lemma skipn_skipn' : forall y x (l : list V), skipn x (skipn y l) = skipn (y + x) l.
Proof.
  induction y as [|y IH]; intros x l; simpl; [reflexivity|]. destruct l as [|v l]; simpl.
  - apply skipn_nil.
  - apply IH.
Qed.

Lemma slice_app l a b c : a <= b -> b <= c -> slice a b l ++ slice b c l = slice a c l.
Proof.
  intros Hab Hbc. unfold slice.
  replace (c - a) with ((b - a) + (c - b)) by lia.
  rewrite firstn_add. f_equal. rewrite skipn_skipn'. replace (a + (b - a)) with b by lia. reflexivity.
Qed.

Lemma slice_same l a : slice a a l = [].
Proof. unfold slice. rewrite Nat.sub_diag. reflexivity. Qed.

Lemma length_slice l a b : a <= b -> b <= length l -> length (slice a b l) = b - a.
Proof. intros. unfold slice. rewrite firstn_length, skipn_length. lia. Qed.

Lemma slice_all l : slice 0 (length l) l = l.
Proof. unfold slice. rewrite Nat.sub_0_r. simpl. apply firstn_all. Qed.

Lemma last_cons_default : forall (t : list nat) c b, last (c :: t) b = last t c.
Proof.
  induction t as [|d t IH]; intros c b; [reflexivity|].
  change (last (c :: d :: t) b) with (last (d :: t) b). rewrite (IH d b), (IH d c). reflexivity.
Qed.

Lemma mono_le_last : forall t b, mono (b :: t) -> b <= last t b.
Proof.
  induction t as [|c t IH]; intros b Hm; [simpl; lia|].
  destruct Hm as [Hbc Hm]. rewrite last_cons_default. specialize (IH c Hm). lia.
Qed.

Lemma mono_tail a t : mono (a :: t) -> mono t.
Proof. destruct t; simpl; tauto. Qed.

(* the per-row lists cut out of a whole child buffer by an offsets window *)
Definition cuts (o : list nat) (child : list V) : list (list V) :=
  map (fun ab => slice (fst ab) (snd ab) child) (adj o).

Lemma cuts_cons2 a b t child : cuts (a :: b :: t) child = slice a b child :: cuts (b :: t) child.
Proof. reflexivity. Qed.

Lemma length_cuts o child : length (cuts o child) = length o - 1.
Proof. unfold cuts. rewrite map_length. apply length_adj. Qed.

(* THE window lemma: the concatenation of the per-row lists is the child buffer between
   the first and the last offset of the window (behind flatten / flat_length / to_flat). *)
Lemma concat_cuts : forall o child a,
  mono (a :: o) -> concat (cuts (a :: o) child) = slice a (last o a) child.
Proof.
  induction o as [|b t IH]; intros child a Hm.
  - simpl. symmetry. apply slice_same.
  - destruct Hm as [Hab Hm].
    rewrite cuts_cons2. cbn [concat]. rewrite IH by exact Hm.
    pose proof (mono_le_last t b Hm) as Hb.
    rewrite slice_app by (auto; exact Hb).
    f_equal. symmetry. apply last_cons_default.
Qed.

End Slices.

(* ---------- sums, cumulative sums, repeats ---------- *)

Fixpoint sum (l : list nat) : nat := match l with [] => 0 | x :: t => x + sum t end.

(* offsets from lengths, starting at base: [b; b+l0; b+l0+l1; ...] *)
Fixpoint cumsum_from (b : nat) (l : list nat) : list nat :=
  match l with [] => [b] | x :: t => b :: cumsum_from (b + x) t end.

(* differences of adjacent offsets *)
Definition diffs (o : list nat) : list nat := map (fun ab => snd ab - fst ab) (adj o).

Lemma diffs_cons2 a b t : diffs (a :: b :: t) = (b - a) :: diffs (b :: t).
Proof. reflexivity. Qed.

Lemma cumsum_from_cons b x t : cumsum_from b (x :: t) = b :: cumsum_from (b + x) t.
Proof. reflexivity. Qed.

Lemma cumsum_from_hd b l : exists t, cumsum_from b l = b :: t.
Proof. destruct l; simpl; eauto. Qed.

Lemma diffs_cumsum : forall l b, diffs (cumsum_from b l) = l.
Proof.
  induction l as [|x t IH]; intro b; [reflexivity|].
  rewrite cumsum_from_cons. destruct (cumsum_from_hd (b + x) t) as [r Hr].
  pose proof (IH (b + x)) as IH'. rewrite Hr in *. rewrite diffs_cons2, IH'. f_equal. lia.
Qed.

Lemma length_cumsum_from l : forall b, length (cumsum_from b l) = S (length l).
Proof. induction l as [|x t IH]; intro b; simpl; [reflexivity|]. rewrite IH. reflexivity. Qed.

Lemma mono_cumsum_from l : forall b, mono (cumsum_from b l).
Proof.
  induction l as [|x t IH]; intro b; [simpl; exact I|].
  rewrite cumsum_from_cons. destruct (cumsum_from_hd (b + x) t) as [r Hr].
  specialize (IH (b + x)). rewrite Hr in *. simpl. split; [lia|exact IH].
Qed.

Lemma last_cumsum_from l : forall b d, last (cumsum_from b l) d = b + sum l.
Proof.
  induction l as [|x t IH]; intros b d; [simpl; lia|].
  rewrite cumsum_from_cons. destruct (cumsum_from_hd (b + x) t) as [r Hr].
  specialize (IH (b + x) d). rewrite Hr in *.
  change (last (b :: (b + x) :: r) d) with (last ((b + x) :: r) d). rewrite IH. simpl. lia.
Qed.

Section Repeat.
Variable V : Type.

(* np.repeat(values, counts): concat of repeat v_i c_i ; stops at the shorter list *)
Fixpoint flat_repeat (vs : list V) (cs : list nat) : list V :=
  match vs, cs with
  | v :: vs', c :: cs' => repeat v c ++ flat_repeat vs' cs'
  | _, _ => []
  end.

Lemma length_flat_repeat : forall vs cs, length vs = length cs -> length (flat_repeat vs cs) = sum cs.
Proof.
  induction vs as [|v vs IH]; intros [|c cs] H; simpl in *; try lia.
  rewrite app_length, repeat_length, IH by lia. reflexivity.
Qed.

(* cut a flat list into consecutive pieces of the given lengths *)
Fixpoint cut_by (ls : list nat) (flat : list V) : list (list V) :=
  match ls with
  | [] => []
  | n :: t => firstn n flat :: cut_by t (skipn n flat)
  end.

Lemma cut_by_concat : forall (ll : list (list V)), cut_by (map (@length V) ll) (concat ll) = ll.
Proof.
  induction ll as [|x t IH]; simpl; [reflexivity|].
  rewrite firstn_app, Nat.sub_diag, firstn_all. simpl. rewrite app_nil_r.
  rewrite skipn_app, Nat.sub_diag, skipn_all. simpl. rewrite IH. reflexivity.
Qed.

Lemma concat_cut_by : forall ls flat, sum ls = length flat -> concat (cut_by ls flat) = flat.
Proof.
  induction ls as [|n t IH]; intros flat H; simpl in *.
  - destruct flat; simpl in *; [reflexivity|lia].
  - rewrite IH; [apply firstn_skipn|]. rewrite skipn_length. lia.
Qed.

Lemma lengths_cut_by : forall ls flat, sum ls = length flat -> map (@length V) (cut_by ls flat) = ls.
Proof.
  induction ls as [|n t IH]; intros flat H; simpl in *; [reflexivity|].
  rewrite firstn_length, IH; [f_equal; lia|]. rewrite skipn_length. lia.
Qed.

Lemma length_cut_by : forall ls flat, length (cut_by ls flat) = length ls.
Proof. induction ls as [|n t IH]; intro flat; simpl; [reflexivity|]. rewrite IH. reflexivity. Qed.

(* cutting by offsets of a zero-based window is cutting by lengths *)
Lemma cuts_cumsum : forall ls b (child : list V),
  cuts (cumsum_from b ls) child = cut_by ls (skipn b child).
Proof.
  induction ls as [|n t IH]; intros b child; [reflexivity|].
  rewrite cumsum_from_cons. destruct (cumsum_from_hd (b + n) t) as [r Hr].
  pose proof (IH (b + n) child) as IH'. rewrite Hr in *.
  rewrite cuts_cons2, IH'. simpl. f_equal.
  - unfold slice. f_equal. lia.
  - f_equal. symmetry. apply skipn_skipn'.
Qed.

(* boolean mask selection (Arrow filter / numpy boolean indexing); stops at the shorter *)
Fixpoint mask_filter (m : list bool) (l : list V) : list V :=
  match m, l with
  | b :: m', x :: l' => if b then x :: mask_filter m' l' else mask_filter m' l'
  | _, _ => []
  end.

Lemma mask_filter_app : forall m1 l1 m2 l2, length m1 = length l1 ->
  mask_filter (m1 ++ m2) (l1 ++ l2) = mask_filter m1 l1 ++ mask_filter m2 l2.
Proof.
  induction m1 as [|b m1 IH]; intros [|x l1] m2 l2 H; simpl in *; try lia; [reflexivity|].
  destruct b; simpl; rewrite IH by lia; reflexivity.
Qed.

Lemma mask_filter_map_filter (f : V -> bool) : forall l, mask_filter (map f l) l = filter f l.
Proof. induction l as [|x t IH]; simpl; [reflexivity|]. destruct (f x); rewrite IH; reflexivity. Qed.

End Repeat.

Lemma map_mask_filter (A B : Type) (f : A -> B) : forall m l,
  map f (mask_filter m l) = mask_filter m (map f l).
Proof.
  induction m as [|b m IH]; intros [|x l]; simpl; try reflexivity.
  destruct b; simpl; rewrite IH; reflexivity.
Qed.

Definition count_true (m : list bool) : nat := length (filter (fun b => b) m).

Lemma length_mask_filter (V : Type) : forall m (l : list V), length m = length l ->
  length (mask_filter m l) = count_true m.
Proof.
  unfold count_true. induction m as [|b m IH]; intros [|x l] H; simpl in *; try lia.
  destruct b; simpl; rewrite IH by lia; reflexivity.
Qed.

(* positions of the true entries: np.nonzero(mask) *)
Fixpoint true_positions_from (k : nat) (m : list bool) : list nat :=
  match m with
  | [] => []
  | b :: t => if b then k :: true_positions_from (S k) t else true_positions_from (S k) t
  end.
Definition true_positions := true_positions_from 0.

Fixpoint forallb2 (A B : Type) (f : A -> B -> bool) (l1 : list A) (l2 : list B) : bool :=
  match l1, l2 with
  | [], [] => true
  | x :: t1, y :: t2 => f x y && forallb2 f t1 t2
  | _, _ => false
  end.

Fixpoint list_eqb (A : Type) (eqb : A -> A -> bool) (l1 l2 : list A) : bool :=
  match l1, l2 with
  | [], [] => true
  | x :: t1, y :: t2 => eqb x y && list_eqb eqb t1 t2
  | _, _ => false
  end.

Lemma list_eqb_spec (A : Type) (eqb : A -> A -> bool) :
  (forall x y, eqb x y = true <-> x = y) -> forall l1 l2, list_eqb eqb l1 l2 = true <-> l1 = l2.
Proof.
  intros H. induction l1 as [|x t IH]; intros [|y t2]; simpl; split; intro E; try congruence; try discriminate.
  - apply andb_true_iff in E as [E1 E2]. apply H in E1. apply IH in E2. congruence.
  - inversion E; subst. apply andb_true_iff. split; [apply H; reflexivity|apply IH; reflexivity].
Qed.

Definition option_eqb (A : Type) (eqb : A -> A -> bool) (a b : option A) : bool :=
  match a, b with
  | None, None => true
  | Some x, Some y => eqb x y
  | _, _ => false
  end.

Lemma option_eqb_spec (A : Type) (eqb : A -> A -> bool) :
  (forall x y, eqb x y = true <-> x = y) -> forall a b, option_eqb eqb a b = true <-> a = b.
Proof.
  intros H [x|] [y|]; simpl; split; intro E; try congruence; try discriminate.
  - apply H in E. congruence.
  - inversion E. apply H. reflexivity.
Qed.

Definition all_equal_nat (l : list nat) : bool :=
  match l with [] => true | x :: t => forallb (Nat.eqb x) t end.

Fixpoint nth_opt (A : Type) (n : nat) (l : list A) : option A :=
  match l, n with
  | [], _ => None
  | x :: _, 0 => Some x
  | _ :: t, S k => nth_opt k t
  end.
