(* Proofs_Names.v — a dotted path means the same thing in every operation (C14); the alias state of a frame does
   not survive a call (C16). *)
From Coq Require Import String List Arith Bool Lia.
Import ListNotations.
From NP Require Import Base Values Dtype Names.

Definition plain_path (n f : str) : str := n ++ DOT :: f.                        (* nest.field *)
Definition bt_path (n f : str) : str := BT :: n ++ [BT; DOT; BT] ++ f ++ [BT].    (* `nest`.`field` *)

(* no column name contains a backtick, nested column names are distinct *)
Definition schema_ok (F : fschema) : bool :=
  forallb (fun c => negb (has_char BT c)) (f_columns F) && names_distinct (map fst (f_nests F)).

(* ---------- helpers that do not mention clean ---------- *)
Lemma str_eqb_eq a b : str_eqb a b = true <-> a = b.
Proof. unfold str_eqb. apply list_eqb_spec. intros; apply Nat.eqb_eq. Qed.
Lemma str_eqb_refl a : str_eqb a a = true.
Proof. apply str_eqb_eq; reflexivity. Qed.
Lemma str_eqb_reflect a b : reflect (a = b) (str_eqb a b).
Proof. apply iff_reflect. symmetry. apply str_eqb_eq. Qed.
Lemma str_eqb_sym a b : str_eqb a b = str_eqb b a.
Proof. destruct (str_eqb_reflect a b), (str_eqb_reflect b a); congruence. Qed.

Lemma has_char_app c a b : has_char c (a ++ b) = has_char c a || has_char c b.
Proof. unfold has_char. apply existsb_app. Qed.
Lemma has_char_cons c x t : has_char c (x :: t) = (c =? x) || has_char c t.
Proof. reflexivity. Qed.

Lemma mem_str_In x l : mem_str x l = true <-> In x l.
Proof.
  unfold mem_str. rewrite existsb_exists. split.
  - intros [y [Hy E]]. apply str_eqb_eq in E. subst. exact Hy.
  - intro H. exists x. split; [exact H|apply str_eqb_refl].
Qed.

Lemma plain_name_inv s : plain_name s = true ->
  has_char DOT s = false /\ has_char BT s = false /\ s <> [].
Proof.
  unfold plain_name. rewrite !andb_true_iff, !negb_true_iff. intros [[H1 H2] H3].
  repeat split; try assumption. intro E; subst; discriminate.
Qed.

Lemma split1_nochar c : forall s acc, has_char c s = false -> split1 c s acc = [rev acc ++ s].
Proof.
  induction s as [|x t IH]; intros acc H.
  - simpl. rewrite app_nil_r. reflexivity.
  - rewrite has_char_cons in H. apply orb_false_iff in H as [H1 H2].
    simpl. rewrite Nat.eqb_sym, H1. rewrite IH by exact H2. simpl. rewrite <- app_assoc. reflexivity.
Qed.

Lemma split1_at c : forall s acc rest, has_char c s = false ->
  split1 c (s ++ c :: rest) acc = (rev acc ++ s) :: split1 c rest [].
Proof.
  induction s as [|x t IH]; intros acc rest H.
  - simpl. rewrite Nat.eqb_refl, app_nil_r. reflexivity.
  - rewrite has_char_cons in H. apply orb_false_iff in H as [H1 H2].
    simpl. rewrite Nat.eqb_sym, H1. rewrite IH by exact H2. simpl. rewrite <- app_assoc. reflexivity.
Qed.

Lemma split1_two a b : has_char DOT a = false -> has_char DOT b = false ->
  split1 DOT (a ++ DOT :: b) [] = [a; b].
Proof.
  intros Ha Hb. rewrite split1_at by exact Ha. rewrite split1_nochar by exact Hb. reflexivity.
Qed.

Lemma until_bt_at : forall s acc rest, has_char BT s = false ->
  until_bt (s ++ BT :: rest) acc = Some (rev acc ++ s, rest).
Proof.
  induction s as [|x t IH]; intros acc rest H.
  - simpl. rewrite app_nil_r. reflexivity.
  - rewrite has_char_cons in H. apply orb_false_iff in H as [H1 H2].
    simpl. rewrite Nat.eqb_sym, H1. rewrite IH by exact H2. simpl. rewrite <- app_assoc. reflexivity.
Qed.

Lemma alias_get_nil x : alias_get [] x = x.
Proof. reflexivity. Qed.

Lemma find_ext_in (A : Type) (P Q : A -> bool) : forall l,
  (forall x, In x l -> P x = Q x) -> find P l = find Q l.
Proof.
  induction l as [|x t IH]; intro H; [reflexivity|]. simpl.
  rewrite (H x) by (left; reflexivity). destruct (Q x); [reflexivity|].
  apply IH. intros y Hy. apply H. right. exact Hy.
Qed.

Lemma find_key_some (B : Type) n : forall (l : list (str * B)), mem_str n (map fst l) = true ->
  exists kv, find (fun kv => str_eqb (fst kv) n) l = Some kv /\ fst kv = n.
Proof.
  induction l as [|x t IH]; intro H; [discriminate|]. simpl in *.
  rewrite (str_eqb_sym (fst x) n). destruct (str_eqb_reflect n (fst x)) as [E|E].
  - exists x. split; [reflexivity|congruence].
  - simpl in H. apply IH. exact H.
Qed.

Lemma in_nests_is_nest F kv : In kv (f_nests F) -> is_nest F (fst kv) = true.
Proof. intro H. unfold is_nest. apply mem_str_In. apply in_map. exact H. Qed.

Lemma bt_path_not_column F n f : schema_ok F = true -> mem_str (bt_path n f) (f_columns F) = false.
Proof.
  unfold schema_ok. rewrite andb_true_iff. intros [H _].
  destruct (mem_str (bt_path n f) (f_columns F)) eqn:E; [|reflexivity].
  apply mem_str_In in E. rewrite forallb_forall in H. apply H in E. discriminate.
Qed.


Section Thms.
Variable clean : str -> str.
(* the facts about pandas' clean_column_name that are used *)
Hypothesis clean_no_dot : forall s, has_char DOT (clean s) = false.
Hypothesis clean_no_bt : forall s, has_char BT (clean s) = false.

Lemma ia_nobt : forall fuel s, has_char BT s = false -> identify_aliases clean fuel s = (s, []).
Proof.
  induction fuel as [|k IH]; intros s H; [reflexivity|].
  destruct s as [|c t]; [reflexivity|].
  rewrite has_char_cons in H. apply orb_false_iff in H as [H1 H2].
  simpl. rewrite Nat.eqb_sym, H1. rewrite IH by exact H2. reflexivity.
Qed.

Lemma identify_nobt s : has_char BT s = false -> identify clean s = (s, []).
Proof. apply ia_nobt. Qed.

Lemma ia_bt k t inner rest : until_bt t [] = Some (inner, rest) -> inner <> [] ->
  identify_aliases clean (S k) (BT :: t) =
  (clean inner ++ fst (identify_aliases clean k rest),
   if str_eqb (clean inner) inner then snd (identify_aliases clean k rest)
   else if existsb (fun kv => str_eqb (fst kv) (clean inner)) (snd (identify_aliases clean k rest))
        then snd (identify_aliases clean k rest)
        else (clean inner, inner) :: snd (identify_aliases clean k rest)).
Proof.
  intros H Hne. simpl. rewrite H. destruct inner as [|i0 it]; [congruence|].
  destruct (identify_aliases clean k rest) as [r al]. reflexivity.
Qed.

Lemma ia_other k c t : (c =? BT) = false ->
  identify_aliases clean (S k) (c :: t) =
  (c :: fst (identify_aliases clean k t), snd (identify_aliases clean k t)).
Proof.
  intro H. simpl. rewrite H. destruct (identify_aliases clean k t) as [r al]. reflexivity.
Qed.

Lemma ia_nil k : identify_aliases clean k [] = ([], []).
Proof. destruct k; reflexivity. Qed.

(* the alias table of `n`.`f` *)
Definition al_f (f : str) : aliases := if str_eqb (clean f) f then [] else [(clean f, f)].
Definition al_nf (n f : str) : aliases :=
  if str_eqb (clean n) n then al_f f
  else if existsb (fun kv => str_eqb (fst kv) (clean n)) (al_f f) then al_f f
       else (clean n, n) :: al_f f.

Lemma ia_bt_path k n f : plain_name n = true -> plain_name f = true ->
  identify_aliases clean (S (S (S k))) (bt_path n f) = (clean n ++ DOT :: clean f, al_nf n f).
Proof.
  intros Hn Hf. apply plain_name_inv in Hn as [_ [Hnb Hnn]]. apply plain_name_inv in Hf as [_ [Hfb Hfn]].
  unfold bt_path.
  rewrite (ia_bt (S (S k)) (n ++ [BT; DOT; BT] ++ f ++ [BT]) n (DOT :: BT :: f ++ [BT])).
  2:{ change (n ++ [BT; DOT; BT] ++ f ++ [BT]) with (n ++ BT :: (DOT :: BT :: f ++ [BT])).
      rewrite until_bt_at by exact Hnb. reflexivity. }
  2:{ exact Hnn. }
  rewrite (ia_other (S k)) by reflexivity.
  rewrite (ia_bt k (f ++ [BT]) f []).
  2:{ rewrite until_bt_at by exact Hfb. reflexivity. }
  2:{ exact Hfn. }
  rewrite ia_nil. cbn [fst snd]. rewrite app_nil_r. reflexivity.
Qed.

Lemma identify_bt_path n f : plain_name n = true -> plain_name f = true ->
  identify clean (bt_path n f) = (clean n ++ DOT :: clean f, al_nf n f).
Proof.
  intros Hn Hf. unfold identify.
  assert (E : exists k, length (bt_path n f) = S (S k)).
  { assert (L : 2 <= length (bt_path n f)).
    { unfold bt_path. cbn [length]. rewrite !app_length. cbn [length]. lia. }
    destruct (length (bt_path n f)) as [|[|k]]; [lia|lia|]. exists k. reflexivity. }
  destruct E as [k E]. rewrite E. apply ia_bt_path; assumption.
Qed.

Lemma al_nf_ok n f : (clean n = clean f -> n = f) ->
  alias_get (al_nf n f) (clean n) = n /\ alias_get (al_nf n f) (clean f) = f.
Proof.
  intro Hinj. unfold al_nf, al_f, alias_get.
  repeat (match goal with |- context [str_eqb ?a ?b] => destruct (str_eqb_reflect a b) end;
          cbn [find existsb fst snd orb]).
  all: split; try reflexivity; try congruence.
  all: try (assert (n = f) by (apply Hinj; congruence); congruence).
Qed.

Lemma parse_plain n f : plain_name n = true -> plain_name f = true ->
  parse_components clean None (plain_path n f) = [n; f].
Proof.
  intros Hn Hf. apply plain_name_inv in Hn as [Hnd [Hnb _]]. apply plain_name_inv in Hf as [Hfd [Hfb _]].
  unfold parse_components, plain_path. rewrite identify_nobt.
  2:{ rewrite has_char_app, has_char_cons, Hnb, Hfb. reflexivity. }
  rewrite split1_two by assumption. reflexivity.
Qed.

(* clean n = clean f only if n = f: otherwise the alias table (a dict keyed by the cleaned identifier) can hold
   only one of the two originals *)
Lemma parse_bt n f : plain_name n = true -> plain_name f = true -> (clean n = clean f -> n = f) ->
  parse_components clean None (bt_path n f) = [n; f].
Proof.
  intros Hn Hf Hinj. unfold parse_components. rewrite identify_bt_path by assumption.
  rewrite split1_two by (apply clean_no_dot).
  destruct (al_nf_ok n f Hinj) as [E1 E2]. cbn [map]. rewrite E1, E2. reflexivity.
Qed.

Lemma parse_either n f path : plain_name n = true -> plain_name f = true -> (clean n = clean f -> n = f) ->
  path = plain_path n f \/ path = bt_path n f -> parse_components clean None path = [n; f].
Proof. intros Hn Hf Hinj [E|E]; subst; [apply parse_plain|apply parse_bt]; assumption. Qed.

(* C14: an existing field, spelled plainly or with backticks around both parts, is the same target in item access,
   item assignment, reduce, sort_values and dropna *)
Theorem resolvers_agree F n f path :
  schema_ok F = true -> plain_name n = true -> plain_name f = true ->
  is_nest F n = true -> mem_str f (fields_of F n) = true ->
  mem_str (plain_path n f) (f_columns F) = false ->
  (clean n = clean f -> n = f) ->
  path = plain_path n f \/ path = bt_path n f ->
  resolve_getitem clean None F path = TField n f /\
  resolve_setitem clean None F path = TField n f /\
  resolve_reduce clean None F path = TField n f /\
  resolve_sort clean None F path = TField n f /\
  resolve_dropna clean None F path = TField n f.
Proof.
  intros Hs Hn Hf Hnest Hfld Hcol Hinj Hpath.
  pose proof (parse_either n f path Hn Hf Hinj Hpath) as Hp.
  assert (Hm : mem_str path (f_columns F) = false).
  { destruct Hpath; subst; [exact Hcol|apply bt_path_not_column; exact Hs]. }
  assert (Hk : known_hier F [n; f] = true).
  { unfold known_hier. cbn [join1]. rewrite Hnest, Hfld. reflexivity. }
  unfold resolve_getitem, resolve_setitem, resolve_reduce, resolve_sort, resolve_dropna, known_column.
  rewrite Hp, Hm, Hk. cbn [join1 hd tl length last Nat.ltb Nat.leb orb andb].
  fold (plain_path n f). rewrite Hcol, Hnest, Hfld. repeat split; reflexivity.
Qed.

(* ... and in the evaluator route of query / eval, provided no OTHER nested column's cleaned name is n *)
Theorem eval_agrees F n f path :
  schema_ok F = true -> plain_name n = true -> plain_name f = true ->
  is_nest F n = true -> mem_str f (fields_of F n) = true ->
  (clean n = clean f -> n = f) ->
  (forall m, is_nest F m = true -> (m = n \/ clean m = n \/ m = clean n \/ clean m = clean n) -> m = n) ->
  path = plain_path n f \/ path = bt_path n f ->
  resolve_eval clean F path = TField n f.
Proof.
  intros Hs Hn Hf Hnest Hfld Hinj Honly Hpath.
  destruct (find_key_some _ n (f_nests F) Hnest) as [kv [Hk Hkn]].
  assert (Hfk : mem_str f (snd kv) = true).
  { unfold fields_of in Hfld. rewrite Hk in Hfld. exact Hfld. }
  pose proof (plain_name_inv n Hn) as [Hnd [Hnb _]]. pose proof (plain_name_inv f Hf) as [Hfd [Hfb _]].
  unfold resolve_eval. destruct Hpath as [E|E]; subst path.
  - unfold plain_path. rewrite identify_nobt.
    2:{ rewrite has_char_app, has_char_cons, Hnb, Hfb. reflexivity. }
    rewrite split1_two by assumption.
    rewrite (find_ext_in _ _ (fun kv => str_eqb (fst kv) n)).
    + rewrite Hk, alias_get_nil, Hfk, Hkn. reflexivity.
    + intros x Hx. apply in_nests_is_nest in Hx.
      destruct (str_eqb_reflect (fst x) n) as [E1|E1]; [reflexivity|].
      destruct (str_eqb_reflect (clean (fst x)) n) as [E2|E2]; [|reflexivity].
      exfalso. apply E1. apply Honly; auto.
  - rewrite identify_bt_path by assumption.
    rewrite split1_two by (apply clean_no_dot).
    destruct (al_nf_ok n f Hinj) as [_ E2].
    rewrite (find_ext_in _ _ (fun kv => str_eqb (fst kv) n)).
    + rewrite Hk, E2, Hfk, Hkn. reflexivity.
    + intros x Hx. apply in_nests_is_nest in Hx.
      destruct (str_eqb_reflect (fst x) n) as [E1|E1].
      * rewrite E1, str_eqb_refl. apply orb_true_r.
      * destruct (str_eqb_reflect (fst x) (clean n)) as [E3|E3]; [exfalso; apply E1; apply Honly; auto|].
        destruct (str_eqb_reflect (clean (fst x)) (clean n)) as [E4|E4]; [exfalso; apply E1; apply Honly; auto|].
        reflexivity.
Qed.

(* a base column whose name is literally the text of the path takes precedence in item access *)
Theorem base_precedence st F item : mem_str item (f_columns F) = true -> resolve_getitem clean st F item = TColumn item.
Proof. intro H. unfold resolve_getitem. rewrite H. reflexivity. Qed.

(* an unknown path is an error in every reading operation, never a silent resolution to something else *)
Theorem unknown_is_error F n f :
  schema_ok F = true -> plain_name n = true -> plain_name f = true ->
  (is_nest F n && mem_str f (fields_of F n)) = false ->
  mem_str (plain_path n f) (f_columns F) = false ->
  resolve_getitem clean None F (plain_path n f) = TRaise /\
  resolve_reduce clean None F (plain_path n f) = TRaise /\
  resolve_sort clean None F (plain_path n f) = TRaise /\
  resolve_dropna clean None F (plain_path n f) = TRaise.
Proof.
  intros Hs Hn Hf Hunk Hcol.
  pose proof (parse_plain n f Hn Hf) as Hp.
  assert (Hk : known_hier F [n; f] = false).
  { unfold known_hier. cbn [join1]. exact Hunk. }
  unfold resolve_getitem, resolve_reduce, resolve_sort, resolve_dropna, known_column.
  rewrite Hp, Hk, Hcol. cbn [join1 hd tl length last Nat.ltb Nat.leb orb andb].
  fold (plain_path n f). rewrite Hcol.
  repeat split; try reflexivity.
  destruct (is_nest F n); [|reflexivity]. simpl in Hunk. rewrite Hunk. reflexivity.
Qed.

(* the listing is consistent with what the resolvers accept *)
Theorem listing_consistent F n f : plain_name n = true -> plain_name f = true ->
  known_hier F [n; f] = (is_nest F n && mem_str f (fields_of F n)).
Proof. intros _ _. reflexivity. Qed.

(* C16: with the evaluation wrapped in try/finally the alias state of a frame is None after ANY history of
   evaluations (successful or failing) and other operations, so every later path resolution is that of a fresh frame *)
Theorem state_cleared ops : frun clean true None ops = None.
Proof.
  unfold frun. induction ops as [|o t IH]; [reflexivity|].
  cbn [fold_left]. destruct o as [e ok|]; cbn [fstep eval_state_after orb]; exact IH.
Qed.
Theorem history_independent ops F path :
  resolve_getitem clean (frun clean true None ops) F path = resolve_getitem clean None F path /\
  resolve_setitem clean (frun clean true None ops) F path = resolve_setitem clean None F path /\
  resolve_reduce clean (frun clean true None ops) F path = resolve_reduce clean None F path /\
  resolve_sort clean (frun clean true None ops) F path = resolve_sort clean None F path /\
  resolve_dropna clean (frun clean true None ops) F path = resolve_dropna clean None F path.
Proof. rewrite state_cleared. repeat split; reflexivity. Qed.
End Thms.

(* the unrepaired evaluation (no finally) is NOT history independent: a failing eval that mentions `my f` leaves a
   table under which the back-ticked path of a later item access is no longer scanned.  toy_clean stands for
   clean_column_name: identity on names without a space, otherwise "Q_" ++ name with spaces turned into '_' *)
Definition toy_clean (s : str) : str :=
  if has_char 32 s then [81; 95] ++ map (fun c => if c =? 32 then 95 else if c =? DOT then 95 else if c =? BT then 95 else c) s
  else map (fun c => if c =? DOT then 95 else if c =? BT then 95 else c) s.
Definition toy_schema : fschema :=
  {| f_columns := [[120]; [110]]; f_nests := [([110], [[109; 121; 32; 102]; [97]])] |}.    (* x, n ; n: "my f", "a" *)
Definition toy_path : str := [110; DOT; BT; 109; 121; 32; 102; BT].                       (* n.`my f` *)
Definition toy_expr : str := toy_path ++ [32; 43; 32; 117; 110; 100; 101; 102].            (* n.`my f` + undef *)
Theorem unrepaired_refuted :
  resolve_getitem toy_clean None toy_schema toy_path = TField [110] [109; 121; 32; 102] /\
  resolve_getitem toy_clean (frun toy_clean false None [FEval toy_expr false]) toy_schema toy_path = TRaise /\
  resolve_getitem toy_clean (frun toy_clean true None [FEval toy_expr false]) toy_schema toy_path = TField [110] [109; 121; 32; 102].
Proof. vm_compute. repeat split; reflexivity. Qed.

Print Assumptions parse_plain.
Print Assumptions parse_bt.
Print Assumptions resolvers_agree.
Print Assumptions eval_agrees.
Print Assumptions base_precedence.
Print Assumptions unknown_is_error.
Print Assumptions listing_consistent.
Print Assumptions state_cleared.
Print Assumptions history_independent.
Print Assumptions unrepaired_refuted.
