(* Names.v — how NestedFrame gives meaning to a column path (nestedframe/core.py, expr.py), over strings as
   code-point lists: the backtick regex `[^`]+` and the alias table (_identify_aliases), the per-frame alias STATE
   (set by eval for the duration of an evaluation), _parse_hierarchical_components, the known-column tests, and
   the resolver of every operation that accepts a path: item access, item assignment, reduce, sort_values,
   dropna (all through _parse_hierarchical_components since the repairs recorded in known_findings.json) and the
   evaluator route of query / eval (pandas cleans back-ticked tokens with clean_column_name; _NestResolver finds the
   nest by name or cleaned name; _NestedFieldResolver un-aliases the attribute).  clean_column_name is a PARAMETER.
   Definitions only. *)
From Coq Require Import String List Arith Bool.
Import ListNotations.
From NP Require Import Base Values Dtype.

Definition DOT := 46.
Definition BT := 96.

(* str.split(".") *)
Fixpoint split1 (c : nat) (s acc : str) : list str :=
  match s with
  | [] => [rev acc]
  | x :: t => if x =? c then rev acc :: split1 c t [] else split1 c t (x :: acc)
  end.
Fixpoint join1 (c : nat) (ps : list str) : str :=
  match ps with [] => [] | [p] => p | p :: t => p ++ c :: join1 c t end.
Definition has_char (c : nat) (s : str) : bool := existsb (Nat.eqb c) s.
Definition mem_str (x : str) (l : list str) : bool := existsb (str_eqb x) l.

(* the text up to the next backtick, and what follows it *)
Fixpoint until_bt (s acc : str) : option (str * str) :=
  match s with
  | [] => None
  | x :: t => if x =? BT then Some (rev acc, t) else until_bt t (x :: acc)
  end.

Definition aliases := list (str * str).           (* cleaned identifier -> original name *)
Definition alias_get (al : aliases) (x : str) : str :=
  match find (fun kv => str_eqb (fst kv) x) al with Some kv => snd kv | None => x end.

Section WithClean.
Variable clean : str -> str.                       (* pandas.core.computation.parsing.clean_column_name *)

(* _identify_aliases: every leftmost, non-overlapping `name` is replaced by clean name; the table maps the
   cleaned identifier back (a dict: for one identifier the LAST original wins) *)
Fixpoint identify_aliases (fuel : nat) (s : str) : str * aliases :=
  match fuel with
  | 0 => (s, [])
  | S f =>
      match s with
      | [] => ([], [])
      | c :: t =>
          if c =? BT then
            match until_bt t [] with
            | Some (inner, rest) =>
                match inner with
                | [] => let '(r, al) := identify_aliases f t in (c :: r, al)
                | _ => let a := clean inner in
                       let '(r, al) := identify_aliases f rest in
                       (a ++ r, if str_eqb a inner then al
                                else if existsb (fun kv => str_eqb (fst kv) a) al then al else (a, inner) :: al)
                end
            | None => let '(r, al) := identify_aliases f t in (c :: r, al)
            end
          else let '(r, al) := identify_aliases f t in (c :: r, al)
      end
  end.
Definition identify (s : str) : str * aliases := identify_aliases (S (length s)) s.

(* _parse_hierarchical_components: with an alias table on the frame (an evaluation in progress) the path is NOT
   scanned for backticks, the frame's table is used *)
Definition parse_components (state : option aliases) (path : str) : list str :=
  let '(p, al) := match state with Some al => (path, al) | None => identify path end in
  map (alias_get al) (split1 DOT p []).

Record fschema := { f_columns : list str;                   (* all column names, nested columns included *)
                    f_nests : list (str * list str) }.        (* nested column -> its field names *)
Definition is_nest (F : fschema) (n : str) : bool := mem_str n (map fst (f_nests F)).
Definition fields_of (F : fschema) (n : str) : list str :=
  match find (fun kv => str_eqb (fst kv) n) (f_nests F) with Some kv => snd kv | None => [] end.

Definition known_hier (F : fschema) (comps : list str) : bool :=
  match comps with
  | c0 :: ((_ :: _) as rest) => is_nest F c0 && mem_str (join1 DOT rest) (fields_of F c0)
  | _ => false
  end.
Definition known_column (F : fschema) (comps : list str) : bool :=
  mem_str (join1 DOT comps) (f_columns F) || known_hier F comps.

Inductive target :=
| TColumn (c : str)             (* a column of the frame (base or whole nested column) *)
| TField (n f : str)            (* field f of nested column n *)
| TNewNest (n f : str)          (* assignment only: creates nested column n with field f *)
| TNewColumn (c : str)          (* assignment only: creates / replaces base column c *)
| TRaise.

Definition resolve_getitem (state : option aliases) (F : fschema) (item : str) : target :=
  if mem_str item (f_columns F) then TColumn item else
  let comps := parse_components state item in
  let cleaned := join1 DOT comps in
  if mem_str cleaned (f_columns F) then TColumn cleaned else
  if known_hier F comps then TField (hd [] comps) (join1 DOT (tl comps)) else TRaise.

Definition resolve_setitem (state : option aliases) (F : fschema) (key : str) : target :=
  let comps := parse_components state key in
  if known_hier F comps || ((1 <? length comps) && is_nest F (hd [] comps)) then
    match comps with [n; f] => TField n f | _ => TRaise end
  else if 1 <? length comps then
    match comps with [n; f] => TNewNest n f | _ => TRaise end
  else TNewColumn (hd [] comps).

(* reduce: a leading string argument is a column iff known; layer = first component, field = the rest joined *)
Definition resolve_reduce (state : option aliases) (F : fschema) (arg : str) : target :=
  let comps := parse_components state arg in
  if known_column F comps then
    if length comps <? 2 then TColumn (hd [] comps) else TField (hd [] comps) (join1 DOT (tl comps))
  else TRaise.

Definition resolve_sort (state : option aliases) (F : fschema) (col : str) : target :=
  let comps := parse_components state col in
  if known_hier F comps then TField (hd [] comps) (join1 DOT (tl comps))
  else if mem_str (join1 DOT comps) (f_columns F) then TColumn (join1 DOT comps) else TRaise.

Definition resolve_dropna (state : option aliases) (F : fschema) (col : str) : target :=
  let comps := parse_components state col in
  if length comps <? 2 then (if mem_str (hd [] comps) (f_columns F) then TColumn (hd [] comps) else TRaise)
  else if is_nest F (hd [] comps)
       then (if mem_str (join1 DOT (tl comps)) (fields_of F (hd [] comps)) then TField (hd [] comps) (join1 DOT (tl comps)) else TRaise)
       else TRaise.

(* the evaluator route for an attribute path X.Y (each part an identifier or back-ticked): the expression's own
   alias table; the nest is found by its name or its cleaned name *)
Definition resolve_eval (F : fschema) (path : str) : target :=
  let '(p, al) := identify path in
  match split1 DOT p [] with
  | [x; y] =>
      match find (fun kv => str_eqb (fst kv) x || str_eqb (clean (fst kv)) x) (f_nests F) with
      | Some kv => let f := alias_get al y in if mem_str f (snd kv) then TField (fst kv) f else TRaise
      | None => TRaise
      end
  | [x] => let c := alias_get al x in if mem_str c (f_columns F) then TColumn c else TRaise
  | _ => TRaise
  end.

(* ---------- the alias STATE of a frame across calls (C16) ---------- *)
(* eval sets the table from the expression, evaluates (which may raise), and clears it in a finally block.
   ok = did the evaluation succeed.  The state AFTER the call: *)
Definition eval_state_after (repaired : bool) (expr : str) (ok : bool) : option aliases :=
  if repaired || ok then None else Some (snd (identify expr)).

Inductive fop := FEval (expr : str) (ok : bool) | FOther.       (* FOther: any operation that does not touch the state *)
Definition fstep (repaired : bool) (st : option aliases) (o : fop) : option aliases :=
  match o with FEval e ok => eval_state_after repaired e ok | FOther => st end.
Definition frun (repaired : bool) (st : option aliases) (ops : list fop) : option aliases :=
  fold_left (fstep repaired) ops st.

End WithClean.

(* a name that needs no protection in a path and survives cleaning unchanged *)
Definition plain_name (s : str) : bool := negb (has_char DOT s) && negb (has_char BT s) && negb (length s =? 0).
