(* CountBy.v — count_nested(df, nested, by=field) (utils/utils.py): per row the number of records per value of the
   grouping field.  Per row: x[by].value_counts(sort=False) (nulls dropped; distinct values in order of first appearance);
   Series.apply assembles a table whose columns are the values seen in any row (in order of first appearance over the
   rows), a value that does not occur in a row gives NaN there; a missing row gives NaN everywhere.  The columns are then
   renamed n_<nest>_<value> and ordered by those names (a matter of rendering: the check compares per value).
   Definitions only. *)
From Coq Require Import String List Arith Bool ZArith.
Import ListNotations.
From NP Require Import Base Values Arrow Frame.

(* value_counts(sort=False) on the non-null values: first appearance order *)
Fixpoint vc_add (v : val) (acc : list (val * nat)) : list (val * nat) :=
  match acc with
  | [] => [(v, 1)]
  | (w, n) :: t => if val_eqb v w then (w, S n) :: t else (w, n) :: vc_add v t
  end.
Definition value_counts (vs : list val) : list (val * nat) :=
  fold_left (fun acc v => if is_null v then acc else vc_add v acc) vs [].
Definition vc_lookup (v : val) (vc : list (val * nat)) : option nat :=
  match find (fun p => val_eqb v (fst p)) vc with Some p => Some (snd p) | None => None end.

Fixpoint dedupe (l : list val) : list val :=
  match l with [] => [] | x :: t => x :: filter (fun y => negb (val_eqb x y)) (dedupe t) end.

(* (the values that head the count columns, one list of cells per row) *)
Definition m_count_by (rows : list nrow) (k : nat) : list val * list (list (option nat)) :=
  let per_row := map (fun r => value_counts (field_values k r)) rows in
  let cats := dedupe (concat (map (map fst) per_row)) in
  (cats, map (fun vc => map (fun c => vc_lookup c vc) cats) per_row).

(* the specification, from the property: for every row and every value of the grouping field occurring anywhere, the
   number of that row's records carrying the value - reported as "no count" (NaN) when there is none *)
Definition occurrences (v : val) (vs : list val) : nat := length (filter (val_eqb v) vs).
Definition spec_count_cell (rows : list nrow) (k : nat) (i : nat) (v : val) : option nat :=
  match occurrences v (field_values k (nth i rows None)) with 0 => None | n => Some n end.
