(* Proofs_Regroup.v — query / dropna on a nested layer (C07, C12): flatten with ordinal row numbers, select records,
   re-pack by first occurrences of the surviving ordinals, aligned write-back = per-row filter. Any number of rows,
   any row contents (missing, empty, non-empty), any predicate. A feasibility sketch of the central induction (on a
   simplified "runs" formulation, NOT the definitions of Frame.v) is in /tmp/proofs/regroup/scratch/Regroup_sketch.v. *)
From Coq Require Import String List Arith Bool ZArith Lia Permutation.
Import ListNotations.
From NP Require Import Base Values Arrow Frame Proofs_Pack.

(* ---------- the ordinal flat view, as a recursion over the rows ---------- *)
Fixpoint tag_from (k : nat) (rows : list nrow) : ftable :=
  match rows with
  | [] => []
  | r :: rs => map (pair (Z.of_nat k)) (recs r) ++ tag_from (S k) rs
  end.

Lemma combine_repeat_app (a : Z) (xs : list record) l1 l2 :
  combine (repeat a (length xs) ++ l1) (xs ++ l2) = map (pair a) xs ++ combine l1 l2.
Proof. induction xs as [|x xs IH]; simpl; [reflexivity|]. rewrite IH. reflexivity. Qed.

Lemma labelled_tag_from : forall rows k,
  combine (flat_repeat (map Z.of_nat (seq k (length rows))) (row_lens rows)) (m_flat rows) = tag_from k rows.
Proof.
  induction rows as [|r rs IH]; intro k; [reflexivity|].
  unfold m_flat, row_lens in *. cbn [length seq map flat_repeat concat tag_from].
  rewrite combine_repeat_app, IH. reflexivity.
Qed.

Lemma ordinal_flat_tag rows : m_ordinal_flat rows = tag_from 0 rows.
Proof. unfold m_ordinal_flat, m_list_index, ordinals. apply labelled_tag_from. Qed.

Lemma map_snd_pair (a : Z) (xs : list record) : map snd (map (pair a) xs) = xs.
Proof. induction xs as [|x xs IH]; simpl; [reflexivity|]. rewrite IH. reflexivity. Qed.

Lemma map_snd_tag_from : forall rows k, map snd (tag_from k rows) = m_flat rows.
Proof.
  induction rows as [|r rs IH]; intro k; [reflexivity|].
  unfold m_flat in *. cbn [tag_from map concat]. rewrite map_app, map_snd_pair, IH. reflexivity.
Qed.

Lemma tag_ge : forall rs k, Forall (fun p : Z * record => (Z.of_nat k <= fst p)%Z) (tag_from k rs).
Proof.
  induction rs as [|r rs IH]; intro k; cbn [tag_from]; [constructor|].
  apply Forall_app; split.
  - apply Forall_forall; intros p Hp. apply in_map_iff in Hp as [x [<- _]]. simpl; lia.
  - eapply Forall_impl; [|apply (IH (S k))]. simpl; intros a Ha; lia.
Qed.

(* ---------- selection on the tagged view ---------- *)
Definition kp (keep : record -> bool) (kr : Z * record) : bool := keep (snd kr).

Lemma filter_kp_pair keep (a : Z) xs : filter (kp keep) (map (pair a) xs) = map (pair a) (filter keep xs).
Proof.
  induction xs as [|x xs IH]; simpl; [reflexivity|].
  unfold kp at 1; simpl. destruct (keep x); simpl; rewrite IH; reflexivity.
Qed.

Lemma filter_ge (f : Z * record -> bool) (k : Z) l :
  Forall (fun p : Z * record => (k <= fst p)%Z) l -> Forall (fun p => (k <= fst p)%Z) (filter f l).
Proof. intro H. apply Forall_forall; intros p Hp. apply filter_In in Hp as [Hp _]. rewrite Forall_forall in H; auto. Qed.

Lemma mask_filter_keep keep (t : ftable) : mask_filter (map keep (map snd t)) t = filter (kp keep) t.
Proof. rewrite map_map. apply (mask_filter_map_filter (fun kr : Z * record => keep (snd kr))). Qed.

(* ---------- a selection of the tagged view is sorted ---------- *)
Lemma is_mono_cons a l : Forall (fun b => (a <= b)%Z) l -> is_mono_inc l = true -> is_mono_inc (a :: l) = true.
Proof.
  intros H M. destruct l as [|b t]; [reflexivity|].
  change (is_mono_inc (a :: b :: t)) with ((a <=? b)%Z && is_mono_inc (b :: t)).
  rewrite M. inversion H; subst. apply andb_true_iff; split; [apply Z.leb_le; assumption|reflexivity].
Qed.

Lemma is_mono_block (a : Z) (xs : list record) (rest : ftable) :
  Forall (fun p => (a <= fst p)%Z) rest -> is_mono_inc (map fst rest) = true ->
  is_mono_inc (map fst (map (pair a) xs ++ rest)) = true.
Proof.
  intros H M. induction xs as [|x xs IH]; [exact M|].
  cbn [map app fst]. apply is_mono_cons; [|exact IH].
  apply Forall_forall. intros b Hb. apply in_map_iff in Hb as [p [<- Hp]].
  apply in_app_or in Hp as [Hp|Hp].
  - apply in_map_iff in Hp as [y [<- _]]. simpl; lia.
  - rewrite Forall_forall in H. apply H; assumption.
Qed.

Lemma filter_tag_sorted keep : forall rows k, is_mono_inc (map fst (filter (kp keep) (tag_from k rows))) = true.
Proof.
  induction rows as [|r rs IH]; intro k; [reflexivity|].
  cbn [tag_from]. rewrite filter_app, filter_kp_pair.
  apply is_mono_block; [|apply IH].
  apply filter_ge. eapply Forall_impl; [|apply (tag_ge rs (S k))]. simpl; intros a Ha; lia.
Qed.

(* ---------- lookup in a packed column with distinct ascending labels and no empty row ---------- *)
Lemma strict_inc_cons2 a b t : strict_inc (a :: b :: t) = ((a <? b)%Z && strict_inc (b :: t)).
Proof. reflexivity. Qed.

Lemma strict_inc_inv : forall l a, strict_inc (a :: l) = true ->
  Forall (fun b => (a < b)%Z) l /\ strict_inc l = true.
Proof.
  induction l as [|b t IH]; intros a H; [split; [constructor|reflexivity]|].
  rewrite strict_inc_cons2 in H. apply andb_true_iff in H as [Hab Hs]. apply Z.ltb_lt in Hab.
  split; [|exact Hs]. constructor; [exact Hab|].
  destruct (IH b Hs) as [Hf _]. eapply Forall_impl; [|exact Hf]. simpl; intros c Hc; lia.
Qed.

Lemma flatten_packed_cons j xs g : flatten_packed ((j, xs) :: g) = map (pair j) xs ++ flatten_packed g.
Proof. reflexivity. Qed.

Lemma filter_has_key_pair l (j : Z) (xs : list record) :
  filter (has_key l) (map (pair j) xs) = if (l =? j)%Z then map (pair j) xs else [].
Proof.
  induction xs as [|x xs IH]; simpl; [destruct (l =? j)%Z; reflexivity|].
  unfold has_key at 1; simpl. rewrite IH, (Z.eqb_sym j l). destruct (l =? j)%Z; reflexivity.
Qed.

Lemma filter_has_key_gt l (g : list (Z * list record)) :
  Forall (fun b => (l < b)%Z) (map fst g) -> filter (has_key l) (flatten_packed g) = [].
Proof.
  induction g as [|[j xs] g IH]; intro H; [reflexivity|].
  cbn [map fst] in H. inversion H; subst.
  rewrite flatten_packed_cons, filter_app, filter_has_key_pair, IH by assumption.
  destruct (Z.eqb_spec l j); [lia|reflexivity].
Qed.

Lemma lookup_flatten l : forall g, strict_inc (map fst g) = true ->
  Forall (fun kg : Z * list record => snd kg <> []) g ->
  lookup_key l g = nonempty_or_missing (map snd (filter (has_key l) (flatten_packed g))).
Proof.
  induction g as [|[j xs] g IH]; intros Hs Hn; [reflexivity|].
  cbn [map fst] in Hs. apply strict_inc_inv in Hs as [Hgt Hs]. inversion Hn; subst. simpl in H1.
  rewrite flatten_packed_cons, filter_app, filter_has_key_pair. cbn [lookup_key].
  destruct (Z.eqb_spec l j) as [->|Hne].
  - rewrite filter_has_key_gt by exact Hgt. rewrite app_nil_r, map_snd_pair.
    destruct xs; [congruence|reflexivity].
  - cbn [app]. apply IH; assumption.
Qed.

(* the aligned write-back of a sorted table: row i = the records labelled i, missing if there is none *)
Lemma set_filtered_sorted n t : is_mono_inc (map fst t) = true ->
  m_set_filtered n t
  = Ok (map (fun i => nonempty_or_missing (map snd (filter (has_key i) t))) (ordinals n)).
Proof.
  intro M. destruct (pack_sorted_ok t M) as [g [Hg [Hf [Hs Hn]]]].
  unfold m_set_filtered. rewrite Hg. cbn [res_map]. f_equal. unfold m_align.
  apply map_ext. intro i. rewrite <- Hf. apply lookup_flatten; assumption.
Qed.

(* ---------- the central induction ---------- *)
Definition sel keep (i : Z) (t : ftable) : list record := map snd (filter (has_key i) (filter (kp keep) t)).

Lemma sel_app keep i t1 t2 : sel keep i (t1 ++ t2) = sel keep i t1 ++ sel keep i t2.
Proof. unfold sel. rewrite !filter_app, map_app. reflexivity. Qed.

Lemma sel_pair keep i (j : Z) xs : sel keep i (map (pair j) xs) = if (i =? j)%Z then filter keep xs else [].
Proof.
  unfold sel. rewrite filter_kp_pair, filter_has_key_pair.
  destruct (i =? j)%Z; [apply map_snd_pair|reflexivity].
Qed.

Lemma sel_lt keep i (t : ftable) : Forall (fun p : Z * record => (i < fst p)%Z) t -> sel keep i t = [].
Proof.
  unfold sel. induction t as [|[j x] t IH]; intro H; [reflexivity|].
  inversion H; subst. simpl in H2. cbn [filter]. destruct (kp keep (j, x)); [|apply IH; assumption].
  cbn [filter]. unfold has_key at 1. cbn [fst]. destruct (Z.eqb_spec j i); [lia|apply IH; assumption].
Qed.

Theorem regroup_filter keep : forall rows k,
  map (fun i => nonempty_or_missing (sel keep i (tag_from k rows))) (map Z.of_nat (seq k (length rows)))
  = spec_filter_rows keep rows.
Proof.
  induction rows as [|r rs IH]; intro k; [reflexivity|].
  cbn [length seq map tag_from spec_filter_rows]. f_equal.
  - rewrite sel_app, sel_pair, Z.eqb_refl, sel_lt, app_nil_r; [reflexivity|].
    eapply Forall_impl; [|apply (tag_ge rs (S k))]. simpl; intros a Ha; lia.
  - fold (spec_filter_rows keep rs). rewrite <- (IH (S k)).
    apply map_ext_in. intros i Hi. apply in_map_iff in Hi as [j [<- Hj]]. apply in_seq in Hj.
    rewrite sel_app, sel_pair. destruct (Z.eqb_spec (Z.of_nat j) (Z.of_nat k)); [lia|reflexivity].
Qed.

Lemma set_filtered_keep keep rows :
  m_set_filtered (length rows) (filter (kp keep) (m_ordinal_flat rows)) = Ok (spec_filter_rows keep rows).
Proof.
  rewrite ordinal_flat_tag, set_filtered_sorted by apply filter_tag_sorted.
  f_equal. apply (regroup_filter keep rows 0).
Qed.

(* ---------- the given statements ---------- *)
Theorem query_nested_spec rows keep :
  m_query_nested rows (map keep (m_flat rows)) = Ok (spec_filter_rows keep rows).
Proof.
  unfold m_query_nested. rewrite map_length, Nat.eqb_refl.
  rewrite <- (set_filtered_keep keep rows). f_equal.
  rewrite ordinal_flat_tag. rewrite <- (map_snd_tag_from rows 0). apply mask_filter_keep.
Qed.
Theorem query_nested_bad_mask rows mask : length mask <> length (m_flat rows) -> m_query_nested rows mask = Err.
Proof. intro H. unfold m_query_nested. apply Nat.eqb_neq in H. rewrite H. reflexivity. Qed.
Theorem dropna_nested_spec rows how subset :
  m_dropna_nested rows how subset = Ok (spec_filter_rows (complete how subset) rows).
Proof. unfold m_dropna_nested. apply (set_filtered_keep (complete how subset) rows). Qed.
(* what the specification says, spelled out: same number of rows; row i holds exactly the satisfying records of
   row i in their original order; a row left without records (also an empty or missing one) is missing *)
Lemma spec_filter_rows_length keep rows : length (spec_filter_rows keep rows) = length rows.
Proof. unfold spec_filter_rows. apply map_length. Qed.

Lemma spec_filter_rows_nth_eq keep : forall rows i,
  nth i (spec_filter_rows keep rows) None = nonempty_or_missing (filter keep (recs (nth i rows None))).
Proof. induction rows as [|r rs IH]; intros [|i]; simpl; try reflexivity. apply IH. Qed.

Lemma spec_filter_rows_nth keep rows i : i < length rows ->
  recs (nth i (spec_filter_rows keep rows) None) = filter keep (recs (nth i rows None))
  /\ (nth i (spec_filter_rows keep rows) None = None <-> filter keep (recs (nth i rows None)) = []).
Proof.
  intros _. rewrite spec_filter_rows_nth_eq.
  destruct (filter keep (recs (nth i rows None))) as [|x xs]; simpl; split; try reflexivity; split; congruence.
Qed.

Print Assumptions query_nested_spec.
Print Assumptions query_nested_bad_mask.
Print Assumptions dropna_nested_spec.
Print Assumptions spec_filter_rows_length.
Print Assumptions spec_filter_rows_nth.
