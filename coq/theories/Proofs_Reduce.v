(* Proofs_Reduce.v — reduce (C10): the zip of per-column iterators calls the function once per row, in row order,
   with that row's own data. *)
From Coq Require Import String List Arith Bool ZArith Lia Permutation.
Import ListNotations.
From NP Require Import Base Values Arrow Frame.

Definition col_ok (n : nat) (c : rcol) : bool :=
  match c with CBaseCol vs => length vs =? n | CNestField _ => true end.

(* ---- helpers ---- *)
Lemma nth_seq_self {A} (d : A) : forall l : list A, l = map (fun i => nth i l d) (seq 0 (length l)).
Proof.
  induction l as [|x t IH]; [reflexivity|].
  cbn [length seq map nth]. f_equal.
  rewrite <- seq_shift, map_map. exact IH.
Qed.

Lemma map2_map_same {I A B C} (f : A -> B -> C) (a : I -> A) (b : I -> B) : forall s : list I,
  map2 f (map a s) (map b s) = map (fun i => f (a i) (b i)) s.
Proof.
  unfold map2. induction s as [|i s IH]; [reflexivity|].
  cbn [map combine fst snd]. f_equal. exact IH.
Qed.

Lemma zip_all_cons2 {A} (l l' : list A) t :
  zip_all (l :: l' :: t) = map2 (fun x xs => x :: xs) l (zip_all (l' :: t)).
Proof. reflexivity. Qed.

Lemma zip_all_map {A I C} (g : C -> I -> A) (s : list I) : forall cols : list C, cols <> [] ->
  zip_all (map (fun c => map (g c) s) cols) = map (fun i => map (fun c => g c i) cols) s.
Proof.
  induction cols as [|c [|c' t] IH]; intro Hne; [congruence| |].
  - cbn [map zip_all]. rewrite map_map. reflexivity.
  - change (map (fun c0 => map (g c0) s) (c :: c' :: t))
      with (map (g c) s :: map (g c') s :: map (fun c0 => map (g c0) s) t).
    rewrite zip_all_cons2.
    change (map (g c') s :: map (fun c0 => map (g c0) s) t)
      with (map (fun c0 => map (g c0) s) (c' :: t)).
    rewrite IH by discriminate.
    rewrite map2_map_same. reflexivity.
Qed.

Definition reduce_arg (rows : list nrow) (c : rcol) (i : nat) : rarg :=
  match c with
  | CBaseCol vs => RBase (nth i vs VNull)
  | CNestField k => RNested (field_values k (nth i rows None))
  end.

Lemma col_iter_seq rows c : col_ok (length rows) c = true ->
  col_iter rows c = map (reduce_arg rows c) (seq 0 (length rows)).
Proof.
  destruct c as [vs|k]; cbn [col_ok col_iter reduce_arg]; intro H.
  - apply Nat.eqb_eq in H. rewrite <- H.
    rewrite (nth_seq_self VNull vs) at 1. rewrite map_map. reflexivity.
  - rewrite (nth_seq_self None rows) at 1. rewrite map_map. reflexivity.
Qed.

Theorem reduce_calls_spec rows cols : cols <> [] -> forallb (col_ok (length rows)) cols = true ->
  m_reduce_calls rows cols = spec_reduce_calls rows cols.
Proof.
  intros Hne Hok. unfold m_reduce_calls, spec_reduce_calls.
  rewrite (map_ext_in (col_iter rows) (fun c => map (reduce_arg rows c) (seq 0 (length rows)))).
  - rewrite zip_all_map by exact Hne. reflexivity.
  - intros c Hc. apply col_iter_seq. rewrite forallb_forall in Hok. apply Hok, Hc.
Qed.
Lemma reduce_calls_length rows cols : cols <> [] -> forallb (col_ok (length rows)) cols = true ->
  length (m_reduce_calls rows cols) = length rows.
Proof.
  intros Hne Hok. rewrite reduce_calls_spec by assumption.
  unfold spec_reduce_calls. rewrite map_length, seq_length. reflexivity.
Qed.
(* count_nested: one count per row, a missing row counting 0 *)
Lemma count_nested_spec rows : m_count_nested rows = map (fun r => length (recs r)) rows.
Proof. reflexivity. Qed.

Print Assumptions reduce_calls_spec.
Print Assumptions reduce_calls_length.
Print Assumptions count_nested_spec.
