(* Proofs_Closure.v — closure under chains of any depth (C18). *)
From Coq Require Import String List Arith Bool Lia.
Import ListNotations.
From NP Require Import Base Values Arrow Dtype Closure.

Lemma str_eqb_refl s : str_eqb s s = true.
Proof. unfold str_eqb. apply (proj2 (list_eqb_spec Nat.eqb Nat.eqb_eq s s)). reflexivity. Qed.

Lemma no_object_filter keep cols : no_object cols = true -> no_object (filter keep cols) = true.
Proof.
  unfold no_object. rewrite !forallb_forall. intros H x Hx. apply filter_In in Hx as [Hx _]. apply H, Hx.
Qed.

Lemma no_object_app a b : no_object (a ++ b) = no_object a && no_object b.
Proof. unfold no_object. apply forallb_app. Qed.

Lemma no_object_set_field cols n f : no_object cols = true -> no_object (set_field cols n f) = true.
Proof.
  induction cols as [|[c t] r IH]; intro H; [reflexivity|].
  unfold no_object in *. cbn [forallb] in H. apply andb_true_iff in H as [H1 H2].
  destruct t; cbn [set_field].
  - cbn [forallb]. rewrite H1. apply IH, H2.
  - destruct (str_eqb c n); cbn [forallb snd]; [exact H2|]. apply IH, H2.
  - discriminate.
Qed.

Lemma concat_equal_tags : forall (a b : list (str * ctag)),
  list_eqb (fun x y => str_eqb (fst x) (fst y) && tag_eqb (snd x) (snd y)) a b = true ->
  no_object a = true ->
  no_object (map2 (fun x y => (fst x, concat_tag (snd x) (snd y))) a b) = true.
Proof.
  induction a as [|[ca ta] ra IH]; intros [|[cb tb] rb] E H; cbn [list_eqb] in E; try discriminate; [reflexivity|].
  apply andb_true_iff in E as [E1 E2]. apply andb_true_iff in E1 as [_ Et]. cbn [snd] in Et.
  unfold no_object in *. cbn [forallb] in H. apply andb_true_iff in H as [H1 H2].
  unfold map2. cbn [combine map forallb fst snd].
  apply andb_true_iff. split.
  - destruct ta, tb; cbn [tag_eqb concat_tag] in *; try discriminate; try reflexivity.
    rewrite Et. reflexivity.
  - apply (IH rb E2 H2).
Qed.

(* one step from a closed frame, with an admissible argument, gives a closed frame *)
Theorem step_closed t e : closed t = true -> effect_ok t e = true -> closed (cstep true t e) = true.
Proof.
  unfold closed. destruct (tk t) eqn:K; [|discriminate]. intros H O.
  destruct e; cbn [cstep tk tcols]; rewrite ?K.
  - exact H.
  - apply no_object_filter, H.
  - rewrite no_object_app, H. reflexivity.
  - apply no_object_set_field, H.
  - cbn [effect_ok] in O. apply andb_true_iff in O as [_ O]. apply concat_equal_tags; assumption.
  - exact O.
Qed.

(* chains of any depth *)
Theorem chain_closed : forall es t, closed t = true -> effects_ok true t es = true -> closed (crun true t es) = true.
Proof.
  induction es as [|e r IH]; intros t H O; cbn [crun effects_ok] in *; [exact H|].
  apply andb_true_iff in O as [O1 O2]. apply IH; [apply step_closed; assumption|exact O2].
Qed.

(* the listing is what the frame contains: a column is listed iff its dtype is nested *)
Theorem listing_is_actual t c : In c (nested_columns t) <-> exists tag, In (c, tag) (tcols t) /\ is_nested_tag tag = true.
Proof.
  unfold nested_columns. rewrite in_map_iff. split.
  - intros [[c' tag] [E Hin]]. apply filter_In in Hin as [Hin Ht]. cbn in E. subst. exists tag. auto.
  - intros [tag [Hin Ht]]. exists (c, tag). split; [reflexivity|]. apply filter_In. auto.
Qed.

(* concatenating UNEQUAL nested dtypes degrades the column to object: the hypothesis "equal nested dtypes" of the
   property is necessary *)
Theorem unequal_concat_degrades : exists a b, is_nested_tag a = true /\ is_nested_tag b = true /\ concat_tag a b = TgObject.
Proof. exists (TgNested [[97]]), (TgNested [[98]]). repeat split. Qed.

(* before the repair, from_lists on a plain DataFrame returned a plain DataFrame: not closed *)
Theorem unrepaired_from_lists_refuted : exists t cols,
  no_object cols = true /\ closed (cstep false t (ERebuild cols)) = false /\ closed (cstep true t (ERebuild cols)) = true.
Proof. exists {| tk := KPlain; tcols := [] |}, [([110], TgNested [[97]])]. repeat split. Qed.
