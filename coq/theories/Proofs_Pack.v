(* Proofs_Pack.v — packing a flat table by label and flattening it again (C02), label matching of add_nested /
   from_flat (C09). All statements are for flat tables of ANY length with ANY multiset of labels in ANY order. *)
From Coq Require Import String List Arith Bool ZArith Lia Permutation.
Import ListNotations.
From NP Require Import Base Values Arrow Frame.

Fixpoint strict_inc (l : list Z) : bool :=
  match l with a :: ((b :: _) as t) => (a <? b)%Z && strict_inc t | _ => true end.
Definition has_key (l : Z) (kr : Z * record) : bool := (fst kr =? l)%Z.

(* ---------- helpers: sortedness ---------- *)
Lemma is_mono_inc_cons2 a b t : is_mono_inc (a :: b :: t) = (a <=? b)%Z && is_mono_inc (b :: t).
Proof. reflexivity. Qed.
Lemma strict_inc_cons2 a b t : strict_inc (a :: b :: t) = (a <? b)%Z && strict_inc (b :: t).
Proof. reflexivity. Qed.

Lemma mono_cons_iff : forall l a,
  is_mono_inc (a :: l) = true <-> (Forall (Z.le a) l /\ is_mono_inc l = true).
Proof.
  induction l as [|b l IH]; intro a.
  - simpl. split; auto.
  - rewrite is_mono_inc_cons2, andb_true_iff, Z.leb_le. split.
    + intros [Hab Hm]. split; [|exact Hm]. constructor; [exact Hab|].
      apply IH in Hm. destruct Hm as [Hf _]. eapply Forall_impl; [|exact Hf]. intros; lia.
    + intros [Hf Hm]. inversion Hf; subst. auto.
Qed.

Lemma strict_cons_iff : forall l a,
  strict_inc (a :: l) = true <-> (Forall (Z.lt a) l /\ strict_inc l = true).
Proof.
  induction l as [|b l IH]; intro a.
  - simpl. split; auto.
  - rewrite strict_inc_cons2, andb_true_iff, Z.ltb_lt. split.
    + intros [Hab Hm]. split; [|exact Hm]. constructor; [exact Hab|].
      apply IH in Hm. destruct Hm as [Hf _]. eapply Forall_impl; [|exact Hf]. intros; lia.
    + intros [Hf Hm]. inversion Hf; subst. auto.
Qed.

Lemma mono_app : forall l1 l2, is_mono_inc l1 = true -> is_mono_inc l2 = true ->
  (forall a b, In a l1 -> In b l2 -> (a <= b)%Z) -> is_mono_inc (l1 ++ l2) = true.
Proof.
  induction l1 as [|a l1 IH]; intros l2 H1 H2 H; [exact H2|].
  rewrite <- app_comm_cons. apply mono_cons_iff. apply mono_cons_iff in H1 as [Hf Hm]. split.
  - apply Forall_app. split; [exact Hf|]. apply Forall_forall. intros b Hb. apply H; simpl; auto.
  - apply IH; auto. intros; apply H; simpl; auto.
Qed.

(* ---------- runs of equal adjacent keys ---------- *)
Fixpoint runs (t : ftable) : list (Z * list record) :=
  match t with
  | [] => []
  | kr :: t' => match runs t' with
                | (k', rs) :: g => if (k' =? fst kr)%Z then (fst kr, snd kr :: rs) :: g
                                   else (fst kr, [snd kr]) :: (k', rs) :: g
                | [] => [(fst kr, [snd kr])]
                end
  end.

Lemma runs_cons kr t' : runs (kr :: t') =
  match runs t' with
  | (k', rs) :: g => if (k' =? fst kr)%Z then (fst kr, snd kr :: rs) :: g
                     else (fst kr, [snd kr]) :: (k', rs) :: g
  | [] => [(fst kr, [snd kr])]
  end.
Proof. reflexivity. Qed.

Lemma runs_head kr t' : exists rs g, runs (kr :: t') = (fst kr, rs) :: g.
Proof.
  rewrite runs_cons. destruct (runs t') as [|[k' rs] g]; [eauto|].
  destruct (k' =? fst kr)%Z; eauto.
Qed.

Lemma flatten_runs : forall t, flatten_packed (runs t) = t.
Proof.
  induction t as [|[k r] t IH]; [reflexivity|].
  rewrite runs_cons. destruct t as [|kr' t'].
  - reflexivity.
  - destruct (runs_head kr' t') as [rs [g Hg]]. rewrite Hg in *. cbn [fst snd].
    destruct (Z.eqb_spec (fst kr') k) as [E|E].
    + unfold flatten_packed in *. cbn [map concat fst snd app] in *. rewrite <- IH. subst k. reflexivity.
    + unfold flatten_packed in *. cbn [map concat fst snd app] in *. rewrite <- IH. reflexivity.
Qed.

Lemma runs_nonempty : forall t, Forall (fun kg : Z * list record => snd kg <> []) (runs t).
Proof.
  induction t as [|kr t IH]; [constructor|].
  rewrite runs_cons. destruct (runs t) as [|[k' rs] g].
  - constructor; [simpl; discriminate|constructor].
  - inversion IH; subst. destruct (k' =? fst kr)%Z.
    + constructor; [simpl; discriminate|assumption].
    + constructor; [simpl; discriminate|]. constructor; assumption.
Qed.

Lemma runs_strict : forall t, is_mono_inc (map fst t) = true -> strict_inc (map fst (runs t)) = true.
Proof.
  induction t as [|kr t IH]; intro H; [reflexivity|].
  rewrite runs_cons. destruct t as [|kr' t'].
  - reflexivity.
  - cbn [map] in H. rewrite is_mono_inc_cons2 in H. apply andb_true_iff in H as [Hle Hm].
    apply Z.leb_le in Hle. specialize (IH Hm).
    destruct (runs_head kr' t') as [rs [g Hg]]. rewrite Hg in *.
    destruct (Z.eqb_spec (fst kr') (fst kr)) as [E|E].
    + cbn [map fst] in *. rewrite <- E. exact IH.
    + cbn [map fst] in *. rewrite strict_inc_cons2, IH. rewrite andb_true_r. apply Z.ltb_lt. lia.
Qed.

(* ---------- offsets of a sorted index ---------- *)
Fixpoint neq_prev (p : Z) (l : list Z) : list bool :=
  match l with [] => [] | x :: t => negb (x =? p)%Z :: neq_prev x t end.

Lemma existsb_eqb_in x seen : existsb (Z.eqb x) seen = true <-> In x seen.
Proof.
  rewrite existsb_exists. split.
  - intros [y [Hy E]]. apply Z.eqb_eq in E. subst. exact Hy.
  - intro H. exists x. split; [exact H|apply Z.eqb_refl].
Qed.

Lemma dup_first_sorted : forall l seen p, In p seen -> (forall s, In s seen -> (s <= p)%Z) ->
  is_mono_inc (p :: l) = true -> map negb (dup_first_from seen l) = neq_prev p l.
Proof.
  induction l as [|x t IH]; intros seen p Hin Hle Hm; [reflexivity|].
  rewrite is_mono_inc_cons2 in Hm. apply andb_true_iff in Hm as [Hpx Hm]. apply Z.leb_le in Hpx.
  cbn [dup_first_from map neq_prev]. f_equal.
  - f_equal. destruct (Z.eqb_spec x p) as [E|E].
    + subst. apply existsb_eqb_in. exact Hin.
    + destruct (existsb (Z.eqb x) seen) eqn:Ex; [|reflexivity].
      apply existsb_eqb_in in Ex. apply Hle in Ex. lia.
  - apply IH; [left; reflexivity| |exact Hm].
    intros s [<-|Hs]; [lia|]. apply Hle in Hs. lia.
Qed.

Fixpoint offs_from (k : nat) (p : Z) (l : list Z) : list nat :=
  match l with
  | [] => [k]
  | x :: t => if (x =? p)%Z then offs_from (S k) x t else k :: offs_from (S k) x t
  end.

Lemma offs_from_tp : forall l k p,
  true_positions_from k (neq_prev p l) ++ [k + length l] = offs_from k p l.
Proof.
  induction l as [|x t IH]; intros k p.
  - simpl. f_equal. lia.
  - cbn [neq_prev true_positions_from offs_from length].
    replace (k + S (length t)) with (S k + length t) by lia.
    destruct (x =? p)%Z; cbn [negb]; [apply IH|]. rewrite <- app_comm_cons. f_equal. apply IH.
Qed.

Lemma offs_from_S : forall l k p, offs_from (S k) p l = map S (offs_from k p l).
Proof.
  induction l as [|x t IH]; intros k p; [reflexivity|].
  cbn [offs_from]. destruct (x =? p)%Z; [apply IH|]. cbn [map]. f_equal. apply IH.
Qed.

Lemma offs_from_nonempty : forall l k p, exists b o, offs_from k p l = b :: o.
Proof.
  induction l as [|x t IH]; intros k p; [simpl; eauto|].
  cbn [offs_from]. destruct (x =? p)%Z; [apply IH|eauto].
Qed.

Lemma calc_offsets_sorted p l : is_mono_inc (p :: l) = true ->
  calc_offsets (p :: l) = 0 :: offs_from 1 p l.
Proof.
  intro Hm. unfold calc_offsets, duplicated_first, true_positions.
  cbn [dup_first_from existsb map negb true_positions_from length].
  rewrite (dup_first_sorted l [p] p); [| left; reflexivity | | exact Hm].
  - rewrite <- app_comm_cons. f_equal. apply (offs_from_tp l 1 p).
  - intros s [<-|[]]. lia.
Qed.

(* ---------- cuts under a shift ---------- *)
Lemma slice_S {V} a b (x : V) l : slice (S a) (S b) (x :: l) = slice a b l.
Proof. reflexivity. Qed.

Lemma slice_0_S {V} b (x : V) l : slice 0 (S b) (x :: l) = x :: slice 0 b l.
Proof. unfold slice. rewrite !Nat.sub_0_r. reflexivity. Qed.

Lemma cuts_map_S {V} : forall o (x : V) l, cuts (map S o) (x :: l) = cuts o l.
Proof.
  induction o as [|a [|b t] IH]; intros x l; try reflexivity.
  change (map S (a :: b :: t)) with (S a :: S b :: map S t).
  rewrite !cuts_cons2, slice_S. f_equal. apply (IH x l).
Qed.

Lemma removelast_cons2 {A} (a b : A) t : removelast (a :: b :: t) = a :: removelast (b :: t).
Proof. reflexivity. Qed.

Lemma removelast_map {A B} (f : A -> B) : forall l, removelast (map f l) = map f (removelast l).
Proof.
  induction l as [|a [|b t] IH]; try reflexivity.
  change (map f (a :: b :: t)) with (f a :: f b :: map f t).
  rewrite !removelast_cons2. cbn [map]. f_equal. exact IH.
Qed.

Definition packed (idx : list Z) (rs : list record) (offs : list nat) : list (Z * list record) :=
  combine (map (fun o => nth o idx 0%Z) (removelast offs)) (cuts offs rs).

Lemma packed_runs : forall t' p r,
  packed (p :: map fst t') (r :: map snd t') (0 :: offs_from 1 p (map fst t')) = runs ((p, r) :: t').
Proof.
  induction t' as [|[x r'] t'' IH]; intros p r; [reflexivity|].
  specialize (IH x r'). rewrite (runs_cons (p, r)). rewrite <- IH. clear IH.
  cbn [map fst snd offs_from]. rewrite offs_from_S.
  destruct (offs_from_nonempty (map fst t'') 1 x) as [b [o Ho]]. rewrite Ho.
  destruct (Z.eqb_spec x p) as [E|E].
  - unfold packed. change (map S (b :: o)) with (S b :: map S o).
    rewrite !removelast_cons2, !cuts_cons2.
    change (S b :: map S o) with (map S (b :: o)).
    rewrite removelast_map, cuts_map_S. cbn [map combine nth]. rewrite map_map.
    cbn [nth]. apply Z.eqb_eq in E. rewrite E, slice_0_S. reflexivity.
  - unfold packed.
    rewrite (removelast_cons2 0 1), (cuts_cons2 0 1).
    change (1 :: map S (b :: o)) with (map S (0 :: b :: o)).
    rewrite removelast_map, cuts_map_S. cbn [map combine nth]. rewrite map_map.
    rewrite !removelast_cons2, !cuts_cons2. cbn [map combine nth].
    apply Z.eqb_neq in E. rewrite E. reflexivity.
Qed.

Lemma pack_sorted_runs t : is_mono_inc (map fst t) = true -> m_pack_sorted t = Ok (runs t).
Proof.
  intro Hm. unfold m_pack_sorted. rewrite Hm. f_equal.
  destruct t as [|[p r] t']; [reflexivity|].
  cbn [map fst snd] in *. rewrite (calc_offsets_sorted _ _ Hm). apply packed_runs.
Qed.

Lemma pack_sorted_ok t : is_mono_inc (map fst t) = true ->
  exists g, m_pack_sorted t = Ok g /\ flatten_packed g = t /\ strict_inc (map fst g) = true
            /\ Forall (fun kg : Z * list record => snd kg <> []) g.
Proof.
  intro Hm. exists (runs t). split; [apply pack_sorted_runs; exact Hm|].
  split; [apply flatten_runs|]. split; [apply runs_strict; exact Hm|apply runs_nonempty].
Qed.
Lemma pack_sorted_err t : is_mono_inc (map fst t) = false -> m_pack_sorted t = Err.
Proof. intro H. unfold m_pack_sorted. rewrite H. reflexivity. Qed.

(* ---------- stable sort ---------- *)
Lemma ins_by_key_perm x : forall l, Permutation (ins_by_key x l) (x :: l).
Proof.
  induction l as [|y t IH]; [apply Permutation_refl|].
  cbn [ins_by_key]. destruct (fst x <=? fst y)%Z; [apply Permutation_refl|].
  eapply Permutation_trans; [apply perm_skip; exact IH|apply perm_swap].
Qed.

Lemma stable_sort_perm t : Permutation (stable_sort_key t) t.
Proof.
  induction t as [|x t IH]; [constructor|].
  change (stable_sort_key (x :: t)) with (ins_by_key x (stable_sort_key t)).
  eapply Permutation_trans; [apply ins_by_key_perm|apply perm_skip; exact IH].
Qed.

Lemma ins_by_key_sorted x : forall l, is_mono_inc (map fst l) = true ->
  is_mono_inc (map fst (ins_by_key x l)) = true.
Proof.
  induction l as [|y t IH]; intro H; [reflexivity|].
  cbn [ins_by_key]. destruct (Z.leb_spec (fst x) (fst y)) as [L|L].
  - cbn [map]. rewrite is_mono_inc_cons2. apply andb_true_iff. split; [apply Z.leb_le; exact L|exact H].
  - cbn [map] in *. apply mono_cons_iff in H as [Hf Hm]. apply mono_cons_iff. split; [|apply IH; exact Hm].
    apply Forall_forall. intros k Hk. apply in_map_iff in Hk as [kr [<- Hkr]].
    apply (Permutation_in _ (ins_by_key_perm x t)) in Hkr. destruct Hkr as [<-|Hkr]; [lia|].
    rewrite Forall_forall in Hf. apply Hf. apply in_map. exact Hkr.
Qed.

Lemma stable_sort_sorted t : is_mono_inc (map fst (stable_sort_key t)) = true.
Proof.
  induction t as [|x t IH]; [reflexivity|].
  change (stable_sort_key (x :: t)) with (ins_by_key x (stable_sort_key t)).
  apply ins_by_key_sorted. exact IH.
Qed.

Lemma ins_by_key_filter l x : forall t,
  filter (has_key l) (ins_by_key x t) = filter (has_key l) (x :: t).
Proof.
  induction t as [|y t IH]; [reflexivity|].
  cbn [ins_by_key]. destruct (Z.leb_spec (fst x) (fst y)) as [L|L]; [reflexivity|].
  cbn [filter] in *. rewrite IH. unfold has_key.
  destruct (Z.eqb_spec (fst x) l) as [Ex|Ex]; [|reflexivity].
  destruct (Z.eqb_spec (fst y) l) as [Ey|Ey]; [lia|reflexivity].
Qed.

Lemma stable_sort_stable t l : filter (has_key l) (stable_sort_key t) = filter (has_key l) t.
Proof.
  induction t as [|x t IH]; [reflexivity|].
  change (stable_sort_key (x :: t)) with (ins_by_key x (stable_sort_key t)).
  rewrite ins_by_key_filter. cbn [filter]. rewrite IH. reflexivity.
Qed.

Lemma pack_flat_runs t : m_pack_flat t = Ok (runs (stable_sort_key t)).
Proof. apply pack_sorted_runs, stable_sort_sorted. Qed.

Theorem flatten_pack_flat t :
  exists g, m_pack_flat t = Ok g /\ flatten_packed g = stable_sort_key t /\ strict_inc (map fst g) = true
            /\ Forall (fun kg : Z * list record => snd kg <> []) g.
Proof. apply pack_sorted_ok, stable_sort_sorted. Qed.

(* ---------- lookup in a packed column ---------- *)
Lemma filter_none {A} (f : A -> bool) l : (forall x, In x l -> f x = false) -> filter f l = [].
Proof.
  induction l as [|x t IH]; intro H; [reflexivity|].
  cbn [filter]. rewrite (H x (or_introl eq_refl)). apply IH. intros; apply H; right; assumption.
Qed.
Lemma filter_all {A} (f : A -> bool) l : (forall x, In x l -> f x = true) -> filter f l = l.
Proof.
  induction l as [|x t IH]; intro H; [reflexivity|].
  cbn [filter]. rewrite (H x (or_introl eq_refl)). f_equal. apply IH. intros; apply H; right; assumption.
Qed.

Lemma in_flatten_packed kr g : In kr (flatten_packed g) -> In (fst kr) (map fst g).
Proof.
  unfold flatten_packed. intro H. apply in_concat in H as [l [Hl Hin]].
  apply in_map_iff in Hl as [kg [<- Hkg]]. apply in_map_iff in Hin as [r [<- _]].
  cbn [fst]. apply in_map. exact Hkg.
Qed.

Lemma flatten_packed_cons j xs g :
  flatten_packed ((j, xs) :: g) = map (pair j) xs ++ flatten_packed g.
Proof. reflexivity. Qed.

Lemma lookup_flatten : forall g l, strict_inc (map fst g) = true ->
  Forall (fun kg : Z * list record => snd kg <> []) g ->
  lookup_key l g = nonempty_or_missing (map snd (filter (has_key l) (flatten_packed g))).
Proof.
  induction g as [|[j xs] g IH]; intros l Hs Hn; [reflexivity|].
  cbn [map fst] in Hs. apply strict_cons_iff in Hs as [Hlt Hs]. inversion Hn as [|? ? Hx Hn']; subst.
  cbn [snd] in Hx. rewrite flatten_packed_cons, filter_app, map_app. cbn [lookup_key].
  destruct (Z.eqb_spec l j) as [E|E].
  - subst j. rewrite filter_all.
    2:{ intros x Hin. apply in_map_iff in Hin as [r [<- _]]. unfold has_key. apply Z.eqb_refl. }
    rewrite (filter_none (has_key l) (flatten_packed g)).
    2:{ intros x Hin. apply in_flatten_packed in Hin. rewrite Forall_forall in Hlt. apply Hlt in Hin.
        unfold has_key. apply Z.eqb_neq. lia. }
    rewrite map_map. cbn [snd]. rewrite map_id, app_nil_r. destruct xs; [congruence|reflexivity].
  - rewrite filter_none.
    2:{ intros x Hin. apply in_map_iff in Hin as [r [<- _]]. unfold has_key. cbn [fst]. apply Z.eqb_neq. congruence. }
    cbn [map app]. apply IH; assumption.
Qed.

Lemma lookup_pack_flat t g l : m_pack_flat t = Ok g ->
  lookup_key l g = nonempty_or_missing (map snd (filter (has_key l) t)).
Proof.
  intro H. destruct (flatten_pack_flat t) as [g' [Hg [Hf [Hs Hn]]]].
  rewrite Hg in H. inversion H; subst g'.
  rewrite (lookup_flatten g l Hs Hn), Hf, stable_sort_stable. reflexivity.
Qed.

Theorem add_nested_left_spec base_labels t :
  m_add_nested_left base_labels t = Ok (spec_add_nested_left base_labels t).
Proof.
  unfold m_add_nested_left, spec_add_nested_left.
  destruct (flatten_pack_flat t) as [g [Hg _]]. rewrite Hg. cbn [res_map]. f_equal.
  apply map_ext. intro l. apply (lookup_pack_flat t g l Hg).
Qed.
Theorem join_plan_spec plan t : m_join_plan plan t = Ok (spec_join_plan plan t).
Proof.
  unfold m_join_plan, spec_join_plan.
  destruct (flatten_pack_flat t) as [g [Hg _]]. rewrite Hg. cbn [res_map]. f_equal.
  apply map_ext. intros [l|]; [|reflexivity]. apply (lookup_pack_flat t g l Hg).
Qed.

(* ---------- pack after flatten ---------- *)
Lemma combine_app {A B} : forall (a1 : list A) (b1 : list B) a2 b2, length a1 = length b1 ->
  combine (a1 ++ a2) (b1 ++ b2) = combine a1 b1 ++ combine a2 b2.
Proof.
  induction a1 as [|x a1 IH]; intros [|y b1] a2 b2 H; simpl in *; try lia; [reflexivity|].
  f_equal. apply IH. lia.
Qed.

Lemma combine_repeat {A B} (l : A) : forall xs : list B, combine (repeat l (length xs)) xs = map (pair l) xs.
Proof. induction xs as [|x xs IH]; [reflexivity|]. simpl. f_equal. exact IH. Qed.

Lemma labelled_flat_flatten : forall labels rows, length labels = length rows ->
  m_labelled_flat labels rows = flatten_packed (combine labels (map recs rows)).
Proof.
  induction labels as [|l ls IH]; intros [|r rs] H; simpl in H; try lia; [reflexivity|].
  unfold m_labelled_flat, m_flat, row_lens in *. cbn [map flat_repeat concat combine].
  rewrite combine_app by apply repeat_length.
  rewrite combine_repeat, flatten_packed_cons. f_equal. apply IH. lia.
Qed.

Lemma map_fst_combine {A B} : forall (a : list A) (b : list B), length a = length b ->
  map fst (combine a b) = a.
Proof.
  induction a as [|x a IH]; intros [|y b] H; simpl in *; try lia; [reflexivity|].
  f_equal. apply IH. lia.
Qed.

Lemma sorted_sort_id : forall t, is_mono_inc (map fst t) = true -> stable_sort_key t = t.
Proof.
  induction t as [|x t IH]; intro H; [reflexivity|].
  change (stable_sort_key (x :: t)) with (ins_by_key x (stable_sort_key t)).
  cbn [map] in H. apply mono_cons_iff in H as [Hf Hm]. rewrite (IH Hm).
  destruct t as [|y t']; [reflexivity|]. cbn [ins_by_key].
  inversion Hf; subst. destruct (Z.leb_spec (fst x) (fst y)); [reflexivity|lia].
Qed.

Lemma flatten_sorted : forall g, strict_inc (map fst g) = true ->
  is_mono_inc (map fst (flatten_packed g)) = true.
Proof.
  induction g as [|[j xs] g IH]; intro H; [reflexivity|].
  cbn [map fst] in H. apply strict_cons_iff in H as [Hlt Hs].
  rewrite flatten_packed_cons, map_app, map_map. cbn [fst]. apply mono_app.
  - clear. induction xs as [|x [|y xs] IH]; try reflexivity.
    cbn [map] in *. rewrite is_mono_inc_cons2, IH, Z.leb_refl. reflexivity.
  - apply IH. exact Hs.
  - intros a b Ha Hb. apply in_map_iff in Ha as [r [<- _]].
    apply in_map_iff in Hb as [kr [<- Hkr]]. apply in_flatten_packed in Hkr.
    rewrite Forall_forall in Hlt. apply Hlt in Hkr. lia.
Qed.

Lemma runs_prefix j T : (forall kr, In kr T -> fst kr <> j) ->
  forall xs, xs <> [] -> runs (map (pair j) xs ++ T) = (j, xs) :: runs T.
Proof.
  intros HT. induction xs as [|r [|r2 xs] IH]; intro Hne; [congruence| |].
  - cbn [map app]. rewrite runs_cons. cbn [fst snd]. destruct T as [|kr T']; [reflexivity|].
    destruct (runs_head kr T') as [rs [g Hg]]. rewrite Hg.
    destruct (Z.eqb_spec (fst kr) j) as [E|E]; [|reflexivity].
    exfalso. apply (HT kr); [left; reflexivity|exact E].
  - change (map (pair j) (r :: r2 :: xs) ++ T) with ((j, r) :: (map (pair j) (r2 :: xs) ++ T)).
    rewrite runs_cons, IH by discriminate. cbn [fst snd]. rewrite Z.eqb_refl. reflexivity.
Qed.

Lemma runs_flatten : forall g, strict_inc (map fst g) = true ->
  runs (flatten_packed g) = filter (fun kg : Z * list record => negb (length (snd kg) =? 0)) g.
Proof.
  induction g as [|[j xs] g IH]; intro H; [reflexivity|].
  cbn [map fst] in H. apply strict_cons_iff in H as [Hlt Hs].
  rewrite flatten_packed_cons. cbn [filter snd]. destruct xs as [|x xs].
  - cbn [map app length Nat.eqb negb]. apply IH. exact Hs.
  - cbn [length Nat.eqb negb]. rewrite runs_prefix; [f_equal; apply IH; exact Hs| |discriminate].
    intros kr Hkr. apply in_flatten_packed in Hkr. rewrite Forall_forall in Hlt. apply Hlt in Hkr. lia.
Qed.

Theorem pack_flatten labels rows : length labels = length rows -> strict_inc labels = true ->
  m_pack_flat (m_labelled_flat labels rows)
  = Ok (filter (fun kg : Z * list record => negb (length (snd kg) =? 0)) (combine labels (map recs rows))).
Proof.
  intros Hl Hs. rewrite labelled_flat_flatten by exact Hl.
  assert (Hk : strict_inc (map fst (combine labels (map recs rows))) = true).
  { rewrite map_fst_combine; [exact Hs|]. rewrite map_length. exact Hl. }
  rewrite pack_flat_runs, sorted_sort_id by (apply flatten_sorted; exact Hk).
  f_equal. apply runs_flatten. exact Hk.
Qed.

(* ---------- first occurrences ---------- *)
Definition firsts_from {A} (seen keys : list Z) (xs : list A) : list (Z * A) :=
  mask_filter (map negb (dup_first_from seen keys)) (combine keys xs).

Lemma firsts_from_cons {A} seen k ks (x : A) xs :
  firsts_from seen (k :: ks) (x :: xs) =
  if existsb (Z.eqb k) seen then firsts_from (k :: seen) ks xs else (k, x) :: firsts_from (k :: seen) ks xs.
Proof. unfold firsts_from. cbn [dup_first_from map combine mask_filter]. destruct (existsb (Z.eqb k) seen); reflexivity. Qed.

Lemma firsts_from_nodup {A} : forall keys seen (xs : list A), length xs = length keys ->
  NoDup (map fst (firsts_from seen keys xs)) /\
  forall k, In k (map fst (firsts_from seen keys xs)) -> ~ In k seen.
Proof.
  induction keys as [|k ks IH]; intros seen [|x xs] H; simpl in H; try lia.
  - split; [constructor|intros k []].
  - rewrite firsts_from_cons. destruct (IH (k :: seen) xs) as [Hnd Hnot]; [lia|].
    destruct (existsb (Z.eqb k) seen) eqn:Ex.
    + split; [exact Hnd|]. intros k0 Hin Hs. apply (Hnot k0 Hin). right. exact Hs.
    + cbn [map fst]. split.
      * constructor; [|exact Hnd]. intro Hin. apply (Hnot k Hin). left. reflexivity.
      * intros k0 [<-|Hin] Hs.
        -- apply existsb_eqb_in in Hs. congruence.
        -- apply (Hnot k0 Hin). right. exact Hs.
Qed.

Lemma first_occurrences_nodup {A} (keys : list Z) (xs : list A) : length xs = length keys ->
  NoDup (map fst (first_occurrences keys xs)).
Proof. intro H. apply (firsts_from_nodup keys [] xs H). Qed.

Lemma firsts_from_spec {A} : forall keys seen (xs : list A) k x, length xs = length keys ->
  (In (k, x) (firsts_from seen keys xs) <->
   exists i, nth_error keys i = Some k /\ nth_error xs i = Some x /\
             (forall j, j < i -> nth_error keys j <> Some k) /\ ~ In k seen).
Proof.
  induction keys as [|k0 ks IH]; intros seen [|x0 xs] k x H; simpl in H; try lia.
  - split; [intros []|]. intros [[|i] [Hi _]]; discriminate.
  - rewrite firsts_from_cons.
    assert (Htail : In (k, x) (firsts_from (k0 :: seen) ks xs) <->
                    exists i, nth_error (k0 :: ks) (S i) = Some k /\ nth_error (x0 :: xs) (S i) = Some x /\
                              (forall j, j < S i -> nth_error (k0 :: ks) j <> Some k) /\ ~ In k seen).
    { rewrite (IH (k0 :: seen) xs k x) by lia. split.
      - intros [i [H1 [H2 [H3 H4]]]]. exists i. repeat split; try assumption.
        + intros [|j] Hj; cbn [nth_error].
          * intro E. inversion E. apply H4. left. assumption.
          * apply H3. lia.
        + intro Hs. apply H4. right. exact Hs.
      - intros [i [H1 [H2 [H3 H4]]]]. exists i. repeat split; try assumption.
        + intros j Hj. apply (H3 (S j)). lia.
        + intros [E|Hs]; [|exact (H4 Hs)]. apply (H3 0); [lia|]. cbn [nth_error]. congruence. }
    destruct (existsb (Z.eqb k0) seen) eqn:Ex.
    + rewrite Htail. split.
      * intros [i Hi]. exists (S i). exact Hi.
      * intros [[|i] Hi]; [|exists i; exact Hi]. exfalso.
        destruct Hi as [H1 [_ [_ H4]]]. cbn [nth_error] in H1. inversion H1; subst.
        apply H4. apply existsb_eqb_in. exact Ex.
    + cbn [In]. rewrite Htail. split.
      * intros [E|[i Hi]]; [|exists (S i); exact Hi]. inversion E; subst. exists 0.
        repeat split; try reflexivity; [intros j Hj; lia|].
        intro Hs. apply existsb_eqb_in in Hs. congruence.
      * intros [[|i] Hi]; [|right; exists i; exact Hi]. left.
        destruct Hi as [H1 [H2 _]]. cbn [nth_error] in *. congruence.
Qed.

Lemma first_occurrences_spec {A} (keys : list Z) (xs : list A) k x : length xs = length keys ->
  (In (k, x) (first_occurrences keys xs) <->
   exists i, nth_error keys i = Some k /\ nth_error xs i = Some x /\ forall j, j < i -> nth_error keys j <> Some k).
Proof.
  intro H. change (first_occurrences keys xs) with (firsts_from [] keys xs).
  rewrite (firsts_from_spec keys [] xs k x H). split.
  - intros [i [H1 [H2 [H3 _]]]]. exists i. auto.
  - intros [i [H1 [H2 H3]]]. exists i. repeat split; auto.
Qed.

Lemma map2_map_same {A B C} (f : A -> B -> C) (h : A -> B) : forall l,
  map2 f l (map h l) = map (fun a => f a (h a)) l.
Proof.
  unfold map2. induction l as [|a l IH]; [reflexivity|]. cbn [map combine fst snd]. f_equal. exact IH.
Qed.

Theorem from_flat_spec t base : length base = length t ->
  m_from_flat t base
  = Ok (map (fun kb : Z * record => (fst kb, snd kb, nonempty_or_missing (map snd (filter (has_key (fst kb)) t))))
            (first_occurrences (map fst t) base)).
Proof.
  intros _. unfold m_from_flat. rewrite add_nested_left_spec. cbn [res_map]. f_equal.
  unfold spec_add_nested_left. rewrite map_map.
  apply (map2_map_same (fun (kb : Z * record) (r : nrow) => (fst kb, snd kb, r))
           (fun kb : Z * record => nonempty_or_missing (map snd (filter (fun kr : Z * record => (fst kr =? fst kb)%Z) t)))).
Qed.

Print Assumptions pack_sorted_ok.
Print Assumptions pack_sorted_err.
Print Assumptions stable_sort_perm.
Print Assumptions stable_sort_sorted.
Print Assumptions stable_sort_stable.
Print Assumptions flatten_pack_flat.
Print Assumptions pack_flatten.
Print Assumptions lookup_pack_flat.
Print Assumptions add_nested_left_spec.
Print Assumptions join_plan_spec.
Print Assumptions first_occurrences_nodup.
Print Assumptions first_occurrences_spec.
Print Assumptions from_flat_spec.
