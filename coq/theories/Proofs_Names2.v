(* Proofs_Names2.v — C14 for paths whose field part holds dots, and "never a silent resolution to something else" for
   EVERY path text (not only plain nest.field): whatever the path, the reading operations agree with each other. *)
From Coq Require Import String List Arith Bool Lia.
Import ListNotations.
From NP Require Import Base Values Dtype Names Proofs_Names.

(* ---------- helpers that do not mention clean ---------- *)
Lemma known_hier_inv F comps : known_hier F comps = true ->
  exists c0 c1 rest, comps = c0 :: c1 :: rest /\ is_nest F c0 = true /\
                     mem_str (join1 DOT (c1 :: rest)) (fields_of F c0) = true.
Proof.
  destruct comps as [|c0 [|c1 rest]]; try discriminate.
  unfold known_hier. rewrite andb_true_iff. intros [H1 H2]. exists c0, c1, rest. auto.
Qed.

Lemma join1_cons2 c p q t : join1 c (p :: q :: t) = p ++ c :: join1 c (q :: t).
Proof. reflexivity. Qed.

Lemma split1_nonempty c : forall s acc, split1 c s acc <> [].
Proof.
  induction s as [|x t IH]; intro acc; simpl; [discriminate|].
  destruct (x =? c); [discriminate|apply IH].
Qed.

(* "c".join(s.split("c")) = s *)
Lemma join1_split1 c : forall s acc, join1 c (split1 c s acc) = rev acc ++ s.
Proof.
  induction s as [|x t IH]; intro acc.
  - simpl. rewrite app_nil_r. reflexivity.
  - simpl. destruct (Nat.eqb_spec x c) as [E|E].
    + subst x. pose proof (split1_nonempty c t []) as Hne. pose proof (IH []) as IH0.
      destruct (split1 c t []) as [|q r]; [congruence|].
      rewrite join1_cons2, IH0. reflexivity.
    + rewrite IH. simpl. rewrite <- app_assoc. reflexivity.
Qed.

(* a text that holds the separator splits into at least two parts *)
Lemma split1_has_two c : forall s acc, has_char c s = true ->
  exists p q r, split1 c s acc = p :: q :: r.
Proof.
  induction s as [|x t IH]; intros acc H; [discriminate|].
  rewrite has_char_cons in H. simpl. destruct (Nat.eqb_spec x c) as [E|E].
  - pose proof (split1_nonempty c t []) as Hne.
    destruct (split1 c t []) as [|q r]; [congruence|]. exists (rev acc), q, r. reflexivity.
  - rewrite Nat.eqb_sym in H. apply Nat.eqb_neq in E. rewrite E in H. simpl in H. apply IH. exact H.
Qed.

Lemma map_alias_get_nil l : map (alias_get []) l = l.
Proof. induction l as [|x t IH]; [reflexivity|]. simpl. rewrite IH. reflexivity. Qed.

Section Thms2.
Variable clean : str -> str.
Hypothesis clean_no_dot : forall s, has_char DOT (clean s) = false.
Hypothesis clean_no_bt : forall s, has_char BT (clean s) = false.

(* 1. For ANY path text and ANY alias state: if item access resolves the path to a field, then reduce, sort_values and
      dropna resolve it to the SAME field, and item assignment resolves it to that field or refuses - no operation
      silently takes another existing field or column.  (The literal-column precedence of item access is excluded by
      the premise that neither the text nor its cleaned form names a column.) *)
Theorem readers_agree_on_any_path st F path n f :
  resolve_getitem clean st F path = TField n f ->
  resolve_reduce clean st F path = TField n f /\
  resolve_sort clean st F path = TField n f /\
  resolve_dropna clean st F path = TField n f /\
  (resolve_setitem clean st F path = TField n f \/ resolve_setitem clean st F path = TRaise).
Proof.
  unfold resolve_getitem, resolve_reduce, resolve_sort, resolve_dropna, resolve_setitem, known_column.
  generalize (parse_components clean st path) as comps. intros comps H.
  destruct (mem_str path (f_columns F)); [discriminate|].
  destruct (mem_str (join1 DOT comps) (f_columns F)) eqn:Hc; [discriminate|].
  destruct (known_hier F comps) eqn:Hk; [|discriminate].
  injection H as <- <-.
  destruct (known_hier_inv _ _ Hk) as (c0 & c1 & rest & -> & Hn & Hf).
  cbn [hd tl length orb]. rewrite Hn, Hf.
  repeat split.
  destruct rest as [|c2 rest]; [left; reflexivity|right; reflexivity].
Qed.

(* 2. ... and conversely: when item access refuses a path (and the path is not a column), so do reduce, sort_values and
      dropna. *)
Theorem readers_refuse_together st F path :
  resolve_getitem clean st F path = TRaise ->
  resolve_reduce clean st F path = TRaise /\
  resolve_sort clean st F path = TRaise /\
  resolve_dropna clean st F path = TRaise.
Proof.
  unfold resolve_getitem, resolve_reduce, resolve_sort, resolve_dropna, known_column.
  generalize (parse_components clean st path) as comps. intros comps H.
  destruct (mem_str path (f_columns F)); [discriminate|].
  destruct (mem_str (join1 DOT comps) (f_columns F)) eqn:Hc; [discriminate|].
  destruct (known_hier F comps) eqn:Hk; [discriminate|].
  cbn [orb]. repeat split.
  destruct comps as [|c0 [|c1 rest]].
  - cbn [length hd join1] in *. rewrite Hc. reflexivity.
  - cbn [length hd join1] in *. rewrite Hc. reflexivity.
  - cbn [length hd tl]. unfold known_hier in Hk.
    change (S (S (length rest)) <? 2) with false.
    destruct (is_nest F c0); [|reflexivity]. cbn [andb] in Hk. rewrite Hk. reflexivity.
Qed.

(* 3. A field whose name holds dots (but no backtick), spelled with backticks around both parts, is that field in all five
      operations.  dotted_name: non-empty, no backtick. *)
Definition dotted_name (s : str) : bool := negb (has_char BT s) && negb (length s =? 0).

Lemma dotted_name_inv s : dotted_name s = true -> has_char BT s = false /\ s <> [].
Proof.
  unfold dotted_name. rewrite andb_true_iff, !negb_true_iff. intros [H1 H2].
  split; [exact H1|]. intro E; subst; discriminate.
Qed.

(* identify_bt_path of Proofs_Names needs of the two parts only: no backtick, not empty *)
Lemma identify_bt_path_dotted n f : has_char BT n = false -> n <> [] -> has_char BT f = false -> f <> [] ->
  identify clean (bt_path n f) = (clean n ++ DOT :: clean f, al_nf clean n f).
Proof.
  intros Hnb Hnn Hfb Hfn. unfold identify.
  assert (E : exists k, length (bt_path n f) = S (S k)).
  { assert (L : 2 <= length (bt_path n f)).
    { unfold bt_path. cbn [length]. rewrite !app_length. cbn [length]. lia. }
    destruct (length (bt_path n f)) as [|[|k]]; [lia|lia|]. exists k. reflexivity. }
  destruct E as [k E]. rewrite E. unfold bt_path.
  rewrite (ia_bt clean (S (S k)) (n ++ [BT; DOT; BT] ++ f ++ [BT]) n (DOT :: BT :: f ++ [BT])).
  2:{ change (n ++ [BT; DOT; BT] ++ f ++ [BT]) with (n ++ BT :: (DOT :: BT :: f ++ [BT])).
      rewrite until_bt_at by exact Hnb. reflexivity. }
  2:{ exact Hnn. }
  rewrite (ia_other clean (S k)) by reflexivity.
  rewrite (ia_bt clean k (f ++ [BT]) f []).
  2:{ rewrite until_bt_at by exact Hfb. reflexivity. }
  2:{ exact Hfn. }
  rewrite ia_nil. cbn [fst snd]. rewrite app_nil_r. reflexivity.
Qed.

Lemma parse_bt_dotted n f : plain_name n = true -> dotted_name f = true -> (clean n = clean f -> n = f) ->
  parse_components clean None (bt_path n f) = [n; f].
Proof.
  intros Hn Hf Hinj. apply plain_name_inv in Hn as [_ [Hnb Hnn]]. apply dotted_name_inv in Hf as [Hfb Hfn].
  unfold parse_components. rewrite identify_bt_path_dotted by assumption.
  rewrite split1_two by (apply clean_no_dot).
  destruct (al_nf_ok clean n f Hinj) as [E1 E2]. cbn [map]. rewrite E1, E2. reflexivity.
Qed.

(* AS GIVEN (without the premise  mem_str (plain_path n f) (f_columns F) = false) the statement is FALSE: item access
   joins the parsed components back to  n.f  and looks that text up among the columns BEFORE it looks for the field,
   so a column whose name is literally "n.a.b" shadows the field "a.b" of n in item access, while item assignment,
   reduce, sort_values and dropna take the field.  See resolvers_agree_dotted_original_false after the section (a
   concrete cleaning function, schema and path).  The repaired statement carries the same premise as
   Proofs_Names.resolvers_agree. *)
Theorem resolvers_agree_dotted F n f :
  schema_ok F = true -> plain_name n = true -> dotted_name f = true ->
  is_nest F n = true -> mem_str f (fields_of F n) = true ->
  mem_str (plain_path n f) (f_columns F) = false ->            (* ADDED premise *)
  (clean n = clean f -> n = f) ->
  resolve_getitem clean None F (bt_path n f) = TField n f /\
  resolve_setitem clean None F (bt_path n f) = TField n f /\
  resolve_reduce clean None F (bt_path n f) = TField n f /\
  resolve_sort clean None F (bt_path n f) = TField n f /\
  resolve_dropna clean None F (bt_path n f) = TField n f.
Proof.
  intros Hs Hn Hf Hnest Hfld Hcol Hinj.
  pose proof (parse_bt_dotted n f Hn Hf Hinj) as Hp.
  pose proof (bt_path_not_column F n f Hs) as Hm.
  assert (Hk : known_hier F [n; f] = true).
  { unfold known_hier. cbn [join1]. rewrite Hnest, Hfld. reflexivity. }
  unfold resolve_getitem, resolve_setitem, resolve_reduce, resolve_sort, resolve_dropna, known_column.
  rewrite Hp, Hm, Hk. cbn [join1 hd tl length Nat.ltb Nat.leb orb andb].
  fold (plain_path n f). rewrite Hcol, Hnest, Hfld. repeat split; reflexivity.
Qed.

(* 4. The same field spelled WITHOUT backticks (nest.a.b for the field "a.b"): item access, reduce, sort_values and dropna
      take the field a.b (never the field b), item assignment refuses. *)
Theorem unprotected_dotted_field F n f :
  schema_ok F = true -> plain_name n = true -> dotted_name f = true -> has_char DOT f = true ->
  is_nest F n = true -> mem_str f (fields_of F n) = true ->
  mem_str (plain_path n f) (f_columns F) = false ->
  resolve_getitem clean None F (plain_path n f) = TField n f /\
  resolve_reduce clean None F (plain_path n f) = TField n f /\
  resolve_sort clean None F (plain_path n f) = TField n f /\
  resolve_dropna clean None F (plain_path n f) = TField n f /\
  resolve_setitem clean None F (plain_path n f) = TRaise.
Proof.
  intros Hs Hn Hf Hdot Hnest Hfld Hcol.
  apply plain_name_inv in Hn as [Hnd [Hnb Hnn]]. apply dotted_name_inv in Hf as [Hfb Hfn].
  destruct (split1_has_two DOT f [] Hdot) as (p & q & r & Hsp).
  pose proof (join1_split1 DOT f []) as Hj. rewrite Hsp in Hj. cbn [rev app] in Hj.
  assert (Hp : parse_components clean None (plain_path n f) = n :: p :: q :: r).
  { unfold parse_components, plain_path. rewrite identify_nobt.
    2:{ rewrite has_char_app, has_char_cons, Hnb, Hfb. reflexivity. }
    rewrite map_alias_get_nil, split1_at by exact Hnd. rewrite Hsp. reflexivity. }
  assert (Hk : known_hier F (n :: p :: q :: r) = true).
  { unfold known_hier. rewrite Hj, Hnest, Hfld. reflexivity. }
  assert (Hjoin : join1 DOT (n :: p :: q :: r) = plain_path n f).
  { rewrite join1_cons2, Hj. reflexivity. }
  unfold resolve_getitem, resolve_setitem, resolve_reduce, resolve_sort, resolve_dropna, known_column.
  rewrite Hp, Hk, Hjoin, Hcol. cbn [hd tl length orb]. rewrite Hj, Hnest, Hfld.
  repeat split; reflexivity.
Qed.

End Thms2.

(* ---------- theorem 3 as originally given is false ---------- *)
(* toy_clean (Proofs_Names) satisfies both hypotheses of the section *)
Lemma has_char_map_avoid c (g : nat -> nat) : (forall x, (c =? g x) = false) ->
  forall s, has_char c (map g s) = false.
Proof.
  intros Hg s. induction s as [|x t IH]; [reflexivity|].
  cbn [map]. rewrite has_char_cons, Hg, IH. reflexivity.
Qed.
Lemma toy_clean_no_dot s : has_char DOT (toy_clean s) = false.
Proof.
  unfold toy_clean. destruct (has_char 32 s).
  - rewrite has_char_app, has_char_map_avoid; [reflexivity|].
    intro x. destruct (x =? 32); [reflexivity|]. destruct (x =? DOT) eqn:E; [reflexivity|].
    destruct (x =? BT); [reflexivity|]. rewrite Nat.eqb_sym. exact E.
  - apply has_char_map_avoid.
    intro x. destruct (x =? DOT) eqn:E; [reflexivity|].
    destruct (x =? BT); [reflexivity|]. rewrite Nat.eqb_sym. exact E.
Qed.
Lemma toy_clean_no_bt s : has_char BT (toy_clean s) = false.
Proof.
  unfold toy_clean. destruct (has_char 32 s).
  - rewrite has_char_app, has_char_map_avoid; [reflexivity|].
    intro x. destruct (x =? 32); [reflexivity|]. destruct (x =? DOT); [reflexivity|].
    destruct (x =? BT) eqn:E; [reflexivity|]. rewrite Nat.eqb_sym. exact E.
  - apply has_char_map_avoid.
    intro x. destruct (x =? DOT); [reflexivity|].
    destruct (x =? BT) eqn:E; [reflexivity|]. rewrite Nat.eqb_sym. exact E.
Qed.

(* columns  n  and  "n.a.b" ; nested column n with the single field "a.b" ; path  `n`.`a.b`  *)
Definition cex_schema : fschema :=
  {| f_columns := [[110]; [110; 46; 97; 46; 98]]; f_nests := [([110], [[97; 46; 98]])] |}.
Definition cex_n : str := [110].
Definition cex_f : str := [97; 46; 98].
(* Eval vm_compute in (resolve_getitem toy_clean None cex_schema (bt_path cex_n cex_f)).
     = TColumn [110; 46; 97; 46; 98]
   Eval vm_compute in (resolve_setitem toy_clean None cex_schema (bt_path cex_n cex_f)),  resolve_reduce, resolve_sort,
   resolve_dropna:
     = TField [110] [97; 46; 98] *)
Example cex_values :
  resolve_getitem toy_clean None cex_schema (bt_path cex_n cex_f) = TColumn [110; 46; 97; 46; 98] /\
  resolve_setitem toy_clean None cex_schema (bt_path cex_n cex_f) = TField cex_n cex_f /\
  resolve_reduce toy_clean None cex_schema (bt_path cex_n cex_f) = TField cex_n cex_f /\
  resolve_sort toy_clean None cex_schema (bt_path cex_n cex_f) = TField cex_n cex_f /\
  resolve_dropna toy_clean None cex_schema (bt_path cex_n cex_f) = TField cex_n cex_f.
Proof. vm_compute. repeat split; reflexivity. Qed.

Example resolvers_agree_dotted_original_false :
  ~ (forall clean : str -> str,
       (forall s, has_char DOT (clean s) = false) -> (forall s, has_char BT (clean s) = false) ->
       forall F n f,
       schema_ok F = true -> plain_name n = true -> dotted_name f = true ->
       is_nest F n = true -> mem_str f (fields_of F n) = true ->
       (clean n = clean f -> n = f) ->
       resolve_getitem clean None F (bt_path n f) = TField n f /\
       resolve_setitem clean None F (bt_path n f) = TField n f /\
       resolve_reduce clean None F (bt_path n f) = TField n f /\
       resolve_sort clean None F (bt_path n f) = TField n f /\
       resolve_dropna clean None F (bt_path n f) = TField n f).
Proof.
  intro H.
  destruct (H toy_clean toy_clean_no_dot toy_clean_no_bt cex_schema cex_n cex_f) as [G _];
    try reflexivity.
  - vm_compute. discriminate.
  - destruct cex_values as [V _]. rewrite V in G. discriminate.
Qed.

Print Assumptions readers_agree_on_any_path.
Print Assumptions readers_refuse_together.
Print Assumptions resolvers_agree_dotted.
Print Assumptions unprotected_dotted_field.
Print Assumptions resolvers_agree_dotted_original_false.
