(* Codec.v — the "decoded" reading of a physical column (row validity + per field one
   optional list per row; see Kernels.v) related to the logical column.  Definitions only:
   boolean shape/validity predicates on decoded rows and the logical column they denote.
   The lemmas (Proofs_Codec.v) are the bridge used by every refinement proof of an operation
   that goes through an Arrow kernel (take, filter, slice, if_else, combine_chunks). *)
From Coq Require Import String List Arith Bool ZArith.
Import ListNotations.
From NP Require Import Base Values Arrow Abs Kernels Logical.

Definition lcol_of_dec (sch : schema) (d : rowsd) : lcol :=
  {| lsch := sch; lvalidity := fst d;
     lcols := map (fun col => mask_rows (fst d) (map (@olist val) col)) (snd d) |}.

Definition some_b {A} (o : option A) : bool := match o with Some _ => true | None => false end.

(* k fields, every field one entry per row *)
Definition dec_shape_b (k : nat) (d : rowsd) : bool :=
  (length (snd d) =? k) && forallb (fun col => length col =? length (fst d)) (snd d).
(* a present row has a list in every field *)
Definition dec_valid_b (d : rowsd) : bool :=
  forallb (fun col => forallb2 (fun (s : bool) (o : option (list val)) => implb s (some_b o)) (fst d) col) (snd d).
Definition dec_lens (col : list (option (list val))) : list nat := map (fun o => length (olist o)) col.
(* every row has the same length in every field *)
Definition dec_rect_b (d : rowsd) : bool :=
  match snd d with [] => true | c0 :: t => forallb (fun c => list_eqb Nat.eqb (dec_lens c0) (dec_lens c)) t end.
(* a missing row hides nothing *)
Definition dec_norm_b (d : rowsd) : bool :=
  forallb (fun col => forallb2 (fun (s : bool) (o : option (list val)) => s || (length (olist o) =? 0)) (fst d) col) (snd d).
Definition dec_inv_b (k : nat) (d : rowsd) : bool :=
  negb (k =? 0) && dec_shape_b k d && dec_valid_b d && dec_rect_b d && dec_norm_b d.

(* the python rows of a decoded column *)
Definition dec_rows (d : rowsd) : lrows :=
  map (fun i => if nth i (fst d) false then Some (map (fun col => olist (nth i col None)) (snd d)) else None)
      (seq 0 (length (fst d))).
