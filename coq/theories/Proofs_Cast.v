(* Proofs_Cast.v — a cast between nested dtypes: to the column's own dtype it changes nothing; to a dtype announcing a
   field the column lacks it is REFUSED as soon as a kept field holds an element (Arrow fills the new field with null
   lists: every such row would be ragged); to a re-ordering / selection of the fields it is the field selection. *)
From Coq Require Import String List Arith Bool Lia.
Import ListNotations.
From NP Require Import Base Values Arrow Abs Kernels Logical ExtArray Steps Cast Proofs_Views Proofs_Views2 Proofs_Codec
  Proofs_Fields.

Lemma same_offsets_all c : same_offsets_b c = true ->
  forall f g, In f (sfields c) -> In g (sfields c) -> rebase (offs (farr f)) = rebase (offs (farr g)).
Proof.
  intros Hso f g Hf Hg. destruct (sfields c) as [|f0 t] eqn:Ef; [destruct Hf|].
  rewrite <- Ef in Hf, Hg.
  rewrite (same_offsets_spec c f0 t f Ef Hso Hf), (same_offsets_spec c f0 t g Ef Hso Hg). reflexivity.
Qed.

(* ---------- helpers ---------- *)

Lemma last_map_sub h : forall o, last (map (fun x => x - h) o) 0 = last o 0 - h.
Proof.
  induction o as [|a t IH]; [reflexivity|].
  destruct t as [|b t]; [reflexivity|].
  change (last (map (fun x => x - h) (b :: t)) 0 = last (b :: t) 0 - h). exact IH.
Qed.

Lemma last_repeat0 : forall n, last (repeat 0 n) 0 = 0.
Proof.
  induction n as [|n IH]; [reflexivity|].
  destruct n as [|n]; [reflexivity|].
  change (last (repeat 0 (S n)) 0 = 0). exact IH.
Qed.

Lemma rebase_repeat0 n : rebase (repeat 0 n) = repeat 0 n.
Proof.
  unfold rebase. induction n as [|n IH]; [reflexivity|].
  cbn [repeat hd map]. f_equal.
  destruct n as [|n]; [reflexivity|]. cbn [repeat hd] in IH. exact IH.
Qed.

Lemma in_map_fst_inv {A B} (l : list (A * B)) k : In k (map fst l) -> exists nt, In nt l /\ fst nt = k.
Proof. intro H. apply in_map_iff in H as (nt & Hk & Hin). exists nt. auto. Qed.

Lemma m_init_nonempty p : chunks p <> [] ->
  m_init p true = if m_validate p then Ok (m_drop_hidden p) else Err.
Proof.
  intro Hne. unfold m_init. destruct (chunks p) eqn:E; [congruence|].
  destruct p as [sch cs]. cbn [chunks] in E. subst cs. reflexivity.
Qed.

(* widening: refused whenever some chunk holds an element in a field that is kept.

   HYPOTHESIS ADDED: [hd 0 (offs (farr fk)) <= last (offs (farr fk)) 0].  Nothing in the original statement says that
   the offsets of [fk] are monotone, [rebase] subtracts in nat (truncating), and so a DEcreasing window is re-based to
   all zeros, exactly what the null-list field shows.  Counterexample to the statement without it
   (the computation is the [Example] right after the theorem):
     c      = {| svalid := [true]; sfields := [ {| fname := "a"; fty := TI64;
                                                   farr := {| offs := [5; 3]; lvalid := [true]; child := [] |} |} ] |}
     p      = {| ctype := [("a", TI64)]; chunks := [c] |}
     target = [("a", TI64); ("b", TI64)],  k = "a",  nm = "b"
   last [5;3] 0 = 3 <> 5 = hd 0 [5;3], every other hypothesis holds, and  m_astype_nested p target = Ok _
   (rebase [5;3] = [0;0] = rebase [0;0]).  A well-formed column (wf_b) has monotone offsets, hence satisfies the
   added hypothesis. *)
Theorem astype_widening_refused p target c k fk nm :
  In c (chunks p) ->
  In k (map fst target) -> find (fun f => String.eqb (fname f) k) (sfields c) = Some fk ->
  last (offs (farr fk)) 0 <> hd 0 (offs (farr fk)) ->
  hd 0 (offs (farr fk)) <= last (offs (farr fk)) 0 ->
  In nm (map fst target) -> find (fun f => String.eqb (fname f) nm) (sfields c) = None ->
  m_astype_nested p target = Err.
Proof.
  intros Hc Hk Hfk Hne Hle Hnm Hfn.
  unfold m_astype_nested. rewrite m_init_nonempty.
  2:{ unfold m_struct_cast. cbn [chunks]. destruct (chunks p); [destruct Hc|discriminate]. }
  destruct (m_validate (m_struct_cast p target)) eqn:Hv; [exfalso|reflexivity].
  unfold m_validate, m_struct_cast in Hv. cbn [chunks] in Hv. rewrite forallb_forall in Hv.
  assert (Hso : same_offsets_b (cast_chunk target c) = true).
  { apply (Hv (cast_chunk target c)). apply in_map. exact Hc. }
  apply in_map_fst_inv in Hk as (ntk & Hink & Ek). apply in_map_fst_inv in Hnm as (ntn & Hinn & En).
  pose proof (same_offsets_all _ Hso (cast_field c ntk) (cast_field c ntn)) as Heq.
  unfold cast_chunk in Heq at 1 2. cbn [sfields] in Heq.
  specialize (Heq (in_map _ _ _ Hink) (in_map _ _ _ Hinn)).
  unfold cast_field in Heq. rewrite Ek, Hfk, En, Hfn in Heq. cbn [farr null_lists offs] in Heq.
  rewrite rebase_repeat0 in Heq.
  assert (Hl : last (rebase (offs (farr fk))) 0 = 0) by (rewrite Heq; apply last_repeat0).
  unfold rebase in Hl. rewrite last_map_sub in Hl. lia.
Qed.

(* the counterexample announced above: without monotone offsets the widening cast is accepted *)
Example astype_widening_needs_hd_le_last :
  let fk := {| fname := "a"%string; fty := TI64; farr := {| offs := [5; 3]; lvalid := [true]; child := [] |} |} in
  let c := {| svalid := [true]; sfields := [fk] |} in
  let p := {| ctype := [("a"%string, TI64)]; chunks := [c] |} in
  let target := [("a"%string, TI64); ("b"%string, TI64)] in
  In c (chunks p) /\ In "a"%string (map fst target) /\
  find (fun f => String.eqb (fname f) "a") (sfields c) = Some fk /\
  last (offs (farr fk)) 0 <> hd 0 (offs (farr fk)) /\
  In "b"%string (map fst target) /\ find (fun f => String.eqb (fname f) "b") (sfields c) = None /\
  m_astype_nested p target <> Err.
Proof.
  cbv zeta. repeat split; try (vm_compute; tauto); try (vm_compute; discriminate).
Qed.

(* ---------- the cast of a chunk whose fields carry the schema's names ---------- *)

Lemma find_in_nodup {A} (key : A -> string) (l : list A) x : NoDup (map key l) -> In x l ->
  find (fun y => String.eqb (key y) (key x)) l = Some x.
Proof.
  intros Hnd Hin. apply In_nth_error in Hin as (k & Hk). exact (find_nth_error_nodup key l k x Hnd Hk).
Qed.

Lemma chunk_names sch c : wf_chunk_b sch c = true -> map fname (sfields c) = map fst sch.
Proof.
  intro Hwf. rewrite <- (chunk_schema sch c Hwf). unfold sc_schema. rewrite map_map. reflexivity.
Qed.

(* a target entry that is an entry of the schema: the cast takes the chunk's own field *)
Lemma cast_field_known sch c nt : wf_chunk_b sch c = true -> NoDup (map fst sch) -> In nt sch ->
  exists f, In f (sfields c) /\ sc_field c (fst nt) = Some f /\ cast_field c nt = f.
Proof.
  intros Hwf Hnd Hin. pose proof (chunk_schema sch c Hwf) as Hs. unfold sc_schema in Hs.
  rewrite <- Hs in Hin. apply in_map_iff in Hin as (f & Ef & Hf). exists f.
  assert (Hfind : find (fun y => String.eqb (fname y) (fname f)) (sfields c) = Some f).
  { apply find_in_nodup; [rewrite (chunk_names sch c Hwf); exact Hnd|exact Hf]. }
  subst nt. cbn [fst]. repeat split; [exact Hf|exact Hfind|].
  unfold cast_field. cbn [fst snd]. rewrite Hfind. destruct f; reflexivity.
Qed.

Lemma cast_chunk_select sch c target : wf_chunk_b sch c = true -> NoDup (map fst sch) ->
  (forall nt, In nt target -> In nt sch) ->
  flat_map (fun nm => match sc_field c nm with Some f => [f] | None => [] end) (map fst target)
  = map (cast_field c) target.
Proof.
  intros Hwf Hnd. induction target as [|nt t IH]; intro Hsub; [reflexivity|].
  cbn [map flat_map]. rewrite IH by (intros x Hx; apply Hsub; right; exact Hx).
  destruct (cast_field_known sch c nt Hwf Hnd (Hsub nt (or_introl eq_refl))) as (f & _ & Hsf & Hcf).
  rewrite Hsf, Hcf. reflexivity.
Qed.

(* a cast to a sub-collection of the schema IS the field selection *)
Lemma struct_cast_view p target : col_ok p -> NoDup (map fst (ctype p)) ->
  (forall nt, In nt target -> In nt (ctype p)) ->
  m_struct_cast p target = view_result p (map fst target).
Proof.
  intros (Hne & Hall) Hnd Hsub. unfold m_struct_cast, view_result. f_equal.
  - symmetry. unfold select_schema. apply (flat_map_find_id fst (ctype p) Hnd target).
    intros x Hx. apply Hsub, Hx.
  - apply map_ext_in. intros c Hc. rewrite Forall_forall in Hall. destruct (Hall c Hc) as (Hwf & _).
    rewrite sc_from_arrays_null. unfold cast_chunk. f_equal. symmetry.
    apply (cast_chunk_select (ctype p) c target Hwf Hnd Hsub).
Qed.

Lemma has_name_in names : forall fs, (forall x, In x fs -> In x names) -> forallb (has_name names) fs = true.
Proof.
  intros fs H. apply forallb_forall. intros x Hx. unfold has_name. apply existsb_exists.
  exists x. split; [apply H, Hx|apply String.eqb_refl].
Qed.

(* the column's own dtype: nothing changes *)
Theorem astype_same_dtype p : inv_b p = true -> m_astype_nested p (ctype p) = Ok p.
Proof.
  intro Hinv. destruct (inv_b_parts p Hinv) as (_ & Hnm & Hch & Hnd & (Hne & Hall)).
  assert (E : m_struct_cast p (ctype p) = p).
  { unfold m_struct_cast. destruct p as [sch cs]. cbn [ctype chunks] in *. f_equal.
    transitivity (map (fun c : schunk => c) cs); [|apply map_id]. apply map_ext_in. intros c Hc.
    rewrite Forall_forall in Hall. destruct (Hall c Hc) as (Hwf & _).
    unfold cast_chunk. destruct c as [sv fs]. cbn [svalid]. f_equal.
    pose proof (chunk_schema sch _ Hwf) as Hs. unfold sc_schema in Hs. cbn [sfields] in Hs |- *.
    transitivity (map (fun f : field => f) fs); [|apply map_id].
    rewrite <- Hs at 1. rewrite map_map. apply map_ext_in. intros f Hf.
    destruct (cast_field_known sch {| svalid := sv; sfields := fs |} (fname f, fty f) Hwf Hnd) as (g & Hg & Hsg & Hcg).
    { rewrite <- Hs. apply (in_map (fun f => (fname f, fty f))). exact Hf. }
    rewrite Hcg. cbn [fst] in Hsg. unfold sc_field in Hsg. cbn [sfields] in Hsg.
    assert (Hfind : find (fun y => String.eqb (fname y) (fname f)) fs = Some f).
    { apply find_in_nodup; [|exact Hf].
      pose proof (chunk_names sch {| svalid := sv; sfields := fs |} Hwf) as Hn. cbn [sfields] in Hn.
      rewrite Hn. exact Hnd. }
    rewrite Hfind in Hsg. congruence. }
  unfold m_astype_nested. rewrite E. apply m_init_chunks; [exact Hch|].
  right. split; [apply inv_validate, Hinv|exact Hnm].
Qed.

(* a selection / re-ordering of the column's fields (distinct names, all known): accepted, and the logical column is the
   field selection of Logical.v *)
Theorem astype_select_fields p target : inv_b p = true -> target <> [] -> NoDup (map fst target) ->
  (forall nt, In nt target -> In nt (ctype p)) ->
  exists q, m_astype_nested p target = Ok q /\ abs q = spec_select_fields (abs p) (map fst target).
Proof.
  intros Hinv Hne Hndt Hsub. destruct (inv_b_parts p Hinv) as (_ & _ & _ & Hnd & Hok).
  exists (view_result p (map fst target)). split; [|apply abs_view_result, Hok].
  unfold m_astype_nested. rewrite (struct_cast_view p target Hok Hnd Hsub).
  assert (Hinv' : inv_b (view_result p (map fst target)) = true).
  { apply inv_view_result; [exact Hinv| |apply NoDup_nodupb, Hndt|].
    - destruct target; [congruence|discriminate].
    - apply has_name_in. intros x Hx. apply in_map_iff in Hx as (nt & <- & Hnt).
      apply in_map, Hsub, Hnt. }
  apply m_init_chunks; [apply inv_chunks, Hinv'|].
  right. split; [apply inv_validate, Hinv'|apply inv_norm, Hinv'].
Qed.

Print Assumptions same_offsets_all.
Print Assumptions astype_widening_refused.
Print Assumptions astype_same_dtype.
Print Assumptions astype_select_fields.
