(* Proofs_CountBy.v — count_nested(by=...) reports, for every row and every value, the number of that row's records
   carrying the value (C10). *)
From Coq Require Import String List Arith Bool ZArith Lia.
Import ListNotations.
From NP Require Import Base Values Arrow Frame CountBy.

(* ---------- helpers ---------- *)

Lemma val_eqb_refl v : val_eqb v v = true.
Proof. apply val_eqb_spec. reflexivity. Qed.

Lemma val_eqb_false a b : val_eqb a b = false <-> a <> b.
Proof.
  split.
  - intros H E. apply val_eqb_spec in E. congruence.
  - intro H. destruct (val_eqb a b) eqn:E; [|reflexivity]. apply val_eqb_spec in E. contradiction.
Qed.

Lemma is_null_true v : is_null v = true <-> v = VNull.
Proof. destruct v; simpl; split; intro H; congruence. Qed.

Lemma is_null_false v : is_null v = false <-> v <> VNull.
Proof. destruct v; simpl; split; intro H; congruence. Qed.

(* the step of value_counts *)
Definition vc_step (acc : list (val * nat)) (v : val) : list (val * nat) :=
  if is_null v then acc else vc_add v acc.

Lemma value_counts_unfold vs : value_counts vs = fold_left vc_step vs [].
Proof. reflexivity. Qed.

(* keys *)
Lemma vc_add_keys v w acc : In v (map fst (vc_add w acc)) <-> v = w \/ In v (map fst acc).
Proof.
  induction acc as [|[x n] t IH]; cbn [vc_add map fst In].
  - split; intros [H|H]; auto; try contradiction.
  - destruct (val_eqb w x) eqn:E; cbn [map fst In].
    + apply val_eqb_spec in E. subst x. split; [intros [H|H]; auto | intros [H|[H|H]]; auto].
    + rewrite IH. split; [intros [H|[H|H]]; auto | intros [H|[H|H]]; auto].
Qed.

Lemma vc_fold_keys v vs : forall acc,
  In v (map fst (fold_left vc_step vs acc)) <-> In v (map fst acc) \/ (v <> VNull /\ In v vs).
Proof.
  induction vs as [|x t IH]; intro acc; cbn [fold_left In].
  - split; [auto | intros [H|[_ []]]; auto].
  - rewrite IH. unfold vc_step. destruct (is_null x) eqn:N.
    + apply is_null_true in N. subst x. split.
      * intros [H|[H1 H2]]; auto.
      * intros [H|[H1 [H2|H2]]]; auto. congruence.
    + apply is_null_false in N. rewrite vc_add_keys. split.
      * intros [[H|H]|[H1 H2]]; auto. subst v. auto.
      * intros [H|[H1 [H2|H2]]]; auto.
Qed.

Lemma value_counts_keys v vs : In v (map fst (value_counts vs)) <-> v <> VNull /\ In v vs.
Proof.
  rewrite value_counts_unfold, vc_fold_keys. cbn [map In]. split; [intros [[]|H]; auto | auto].
Qed.

(* lookups *)
Definition cnt (v : val) (vc : list (val * nat)) : nat :=
  match vc_lookup v vc with Some n => n | None => 0 end.

Lemma vc_lookup_cons v x n t :
  vc_lookup v ((x, n) :: t) = if val_eqb v x then Some n else vc_lookup v t.
Proof. unfold vc_lookup. cbn [find fst snd]. destruct (val_eqb v x); reflexivity. Qed.

Lemma vc_lookup_add v w acc :
  vc_lookup v (vc_add w acc) =
  if val_eqb v w then Some (S (cnt v acc)) else vc_lookup v acc.
Proof.
  induction acc as [|[x n] t IH]; cbn [vc_add].
  - rewrite vc_lookup_cons. unfold cnt, vc_lookup. cbn [find]. destruct (val_eqb v w); reflexivity.
  - destruct (val_eqb w x) eqn:E.
    + apply val_eqb_spec in E. subst x. unfold cnt. rewrite !vc_lookup_cons.
      destruct (val_eqb v w); reflexivity.
    + unfold cnt in *. rewrite !vc_lookup_cons, IH.
      destruct (val_eqb v x) eqn:E1; [|reflexivity].
      destruct (val_eqb v w) eqn:E2; [|reflexivity].
      apply val_eqb_spec in E1, E2. subst. rewrite val_eqb_refl in E. discriminate.
Qed.

Definition count_cell (n : nat) : option nat := match n with 0 => None | S m => Some (S m) end.

Lemma vc_fold_lookup v vs : v <> VNull -> forall acc,
  vc_lookup v acc <> Some 0 ->
  vc_lookup v (fold_left vc_step vs acc) = count_cell (cnt v acc + occurrences v vs).
Proof.
  intro Hv. induction vs as [|x t IH]; intros acc Hacc; cbn [fold_left].
  - unfold occurrences. cbn [filter length]. rewrite Nat.add_0_r. unfold cnt.
    destruct (vc_lookup v acc) as [[|n]|]; try reflexivity. congruence.
  - unfold vc_step at 2. unfold occurrences. cbn [filter].
    destruct (is_null x) eqn:N.
    + apply is_null_true in N. subst x.
      assert (E : val_eqb v VNull = false) by (apply val_eqb_false; exact Hv).
      rewrite E. apply IH. exact Hacc.
    + rewrite IH.
      * unfold cnt at 1. rewrite vc_lookup_add. fold (occurrences v t).
        destruct (val_eqb v x); cbn [length].
        -- f_equal. unfold occurrences. lia.
        -- reflexivity.
      * rewrite vc_lookup_add. destruct (val_eqb v x); [discriminate | exact Hacc].
Qed.

Lemma value_counts_lookup v vs : v <> VNull ->
  vc_lookup v (value_counts vs) = count_cell (occurrences v vs).
Proof.
  intro Hv. rewrite value_counts_unfold, vc_fold_lookup; auto.
  unfold vc_lookup. cbn [find]. discriminate.
Qed.

(* dedupe *)
Lemma dedupe_In v l : In v (dedupe l) <-> In v l.
Proof.
  induction l as [|x t IH]; cbn [dedupe In]; [tauto|].
  rewrite filter_In, IH. split.
  - intros [H|[H _]]; auto.
  - intros [H|H]; auto. destruct (val_eqb x v) eqn:E.
    + apply val_eqb_spec in E. auto.
    + right. auto.
Qed.

Lemma NoDup_filter {A} (f : A -> bool) l : NoDup l -> NoDup (filter f l).
Proof.
  induction 1 as [|x t Hx Ht IH]; cbn [filter]; [constructor|].
  destruct (f x); auto. constructor; auto. rewrite filter_In. tauto.
Qed.

Lemma dedupe_NoDup l : NoDup (dedupe l).
Proof.
  induction l as [|x t IH]; cbn [dedupe]; constructor.
  - rewrite filter_In. intros [_ H]. rewrite val_eqb_refl in H. discriminate.
  - apply NoDup_filter, IH.
Qed.

(* unfolding the model *)
Definition cats_of (rows : list nrow) (k : nat) : list val :=
  dedupe (concat (map (map fst) (map (fun r => value_counts (field_values k r)) rows))).

Lemma fst_count_by rows k : fst (m_count_by rows k) = cats_of rows k.
Proof. reflexivity. Qed.

Lemma snd_count_by rows k :
  snd (m_count_by rows k) =
  map (fun r => map (fun c => vc_lookup c (value_counts (field_values k r))) (cats_of rows k)) rows.
Proof. unfold m_count_by. cbn [snd]. rewrite map_map. reflexivity. Qed.

Lemma cats_In rows k v :
  In v (cats_of rows k) <-> (v <> VNull /\ exists r, In r rows /\ In v (field_values k r)).
Proof.
  unfold cats_of. rewrite dedupe_In, in_concat. split.
  - intros [l [Hl Hv]]. rewrite map_map in Hl. apply in_map_iff in Hl. destruct Hl as [r [<- Hr]].
    apply value_counts_keys in Hv. destruct Hv as [H1 H2]. split; auto. exists r; auto.
  - intros [H1 [r [Hr H2]]]. exists (map fst (value_counts (field_values k r))). split.
    + rewrite map_map. apply in_map_iff. exists r; auto.
    + apply value_counts_keys. auto.
Qed.

Lemma row_cells rows k i : i < length rows ->
  nth i (snd (m_count_by rows k)) [] =
  map (fun c => vc_lookup c (value_counts (field_values k (nth i rows None)))) (cats_of rows k).
Proof.
  intro Hi. rewrite snd_count_by.
  set (g := fun r => map (fun c => vc_lookup c (value_counts (field_values k r))) (cats_of rows k)).
  rewrite (nth_indep _ [] (g None)) by (rewrite map_length; exact Hi).
  rewrite map_nth. reflexivity.
Qed.

Lemma row_cells_spec rows k i : i < length rows ->
  nth i (snd (m_count_by rows k)) [] =
  map (fun c => spec_count_cell rows k i c) (cats_of rows k).
Proof.
  intro Hi. rewrite row_cells by exact Hi. apply map_ext_in. intros c Hc.
  apply cats_In in Hc. destruct Hc as [Hc _].
  rewrite value_counts_lookup by exact Hc. reflexivity.
Qed.

(* 1. the columns: exactly the non-null values of the grouping field that occur in some row, each once *)
Theorem count_by_columns rows k v :
  In v (fst (m_count_by rows k)) <-> (v <> VNull /\ exists r, In r rows /\ In v (field_values k r)).
Proof. rewrite fst_count_by. apply cats_In. Qed.

Theorem count_by_columns_nodup rows k : NoDup (fst (m_count_by rows k)).
Proof. rewrite fst_count_by. apply dedupe_NoDup. Qed.

(* 2. one row of cells per input row, one cell per column *)
Theorem count_by_shape rows k :
  length (snd (m_count_by rows k)) = length rows /\
  Forall (fun cells => length cells = length (fst (m_count_by rows k))) (snd (m_count_by rows k)).
Proof.
  rewrite snd_count_by, fst_count_by. split.
  - apply map_length.
  - apply Forall_forall. intros cells H. apply in_map_iff in H. destruct H as [r [<- _]]. apply map_length.
Qed.

(* 3. every cell is the specified count *)
Theorem count_by_cell rows k i j :
  i < length rows -> j < length (fst (m_count_by rows k)) ->
  nth j (nth i (snd (m_count_by rows k)) []) None = spec_count_cell rows k i (nth j (fst (m_count_by rows k)) VNull).
Proof.
  intros Hi Hj. rewrite row_cells_spec by exact Hi. rewrite fst_count_by in *.
  rewrite (nth_indep _ None (spec_count_cell rows k i VNull)) by (rewrite map_length; exact Hj).
  apply (map_nth (fun c => spec_count_cell rows k i c)).
Qed.

Lemma lookup_empty_row k (r : nrow) c : recs r = [] -> vc_lookup c (value_counts (field_values k r)) = None.
Proof. unfold field_values. intros ->. reflexivity. Qed.

(* 4. a missing row and an empty row have no count anywhere *)
Theorem count_by_missing_row rows k i : i < length rows -> recs (nth i rows None) = [] ->
  Forall (fun c => c = None) (nth i (snd (m_count_by rows k)) []).
Proof.
  intros Hi He. rewrite row_cells by exact Hi.
  apply Forall_forall. intros c H. apply in_map_iff in H. destruct H as [x [<- _]].
  apply lookup_empty_row. exact He.
Qed.

(* 5. the counts of a row add up to the number of its records whose grouping value is not null *)
Definition cell_sum (cells : list (option nat)) : nat :=
  fold_right (fun c acc => match c with Some n => n + acc | None => acc end) 0 cells.

Lemma cell_sum_count vs cats :
  cell_sum (map (fun c => count_cell (occurrences c vs)) cats)
  = fold_right (fun c acc => occurrences c vs + acc) 0 cats.
Proof.
  induction cats as [|c t IH]; cbn [map fold_right cell_sum]; [reflexivity|].
  fold (cell_sum (map (fun c0 => count_cell (occurrences c0 vs)) t)). rewrite IH.
  destruct (occurrences c vs); reflexivity.
Qed.

Lemma sum_occ_nil cats : fold_right (fun c acc => occurrences c [] + acc) 0 cats = 0.
Proof. induction cats as [|c t IH]; cbn [fold_right]; [reflexivity|]. rewrite IH. reflexivity. Qed.

Lemma sum_occ_cons x vs cats :
  fold_right (fun c acc => occurrences c (x :: vs) + acc) 0 cats
  = fold_right (fun c acc => occurrences c vs + acc) 0 cats + occurrences x cats.
Proof.
  induction cats as [|c t IH]; cbn [fold_right]; [reflexivity|].
  rewrite IH. unfold occurrences. cbn [filter].
  destruct (val_eqb c x) eqn:E.
  - apply val_eqb_spec in E. subst c. rewrite val_eqb_refl. cbn [length]. lia.
  - assert (E' : val_eqb x c = false).
    { apply val_eqb_false. intro H. subst. rewrite val_eqb_refl in E. discriminate. }
    rewrite E'. lia.
Qed.

Lemma occ_notin x l : ~ In x l -> occurrences x l = 0.
Proof.
  unfold occurrences. induction l as [|y t IH]; cbn [filter In length]; [reflexivity|].
  intro H. destruct (val_eqb x y) eqn:E.
  - apply val_eqb_spec in E. subst. tauto.
  - apply IH. tauto.
Qed.

Lemma occ_nodup x l : NoDup l -> In x l -> occurrences x l = 1.
Proof.
  induction 1 as [|y t Hy Ht IH]; cbn [In]; [tauto|].
  unfold occurrences. cbn [filter]. intros [H|H].
  - subst y. rewrite val_eqb_refl. cbn [length]. fold (occurrences x t). rewrite occ_notin; auto.
  - destruct (val_eqb x y) eqn:E.
    + apply val_eqb_spec in E. subst. contradiction.
    + apply IH, H.
Qed.

Lemma sum_occ_total cats vs :
  NoDup cats -> (forall c, In c cats -> c <> VNull) ->
  (forall v, In v vs -> v <> VNull -> In v cats) ->
  fold_right (fun c acc => occurrences c vs + acc) 0 cats
  = length (filter (fun v => negb (is_null v)) vs).
Proof.
  intros Hnd Hnn. induction vs as [|x t IH]; intro Hall.
  - rewrite sum_occ_nil. reflexivity.
  - rewrite sum_occ_cons, IH by (intros; apply Hall; cbn [In]; auto).
    cbn [filter]. destruct (is_null x) eqn:N; cbn [negb length].
    + apply is_null_true in N. subst x. rewrite occ_notin; [lia|].
      intro H. apply Hnn in H. congruence.
    + apply is_null_false in N. rewrite occ_nodup; [lia| exact Hnd |].
      apply Hall; cbn [In]; auto.
Qed.

Theorem count_by_total rows k i : i < length rows ->
  fold_right (fun c acc => match c with Some n => n + acc | None => acc end) 0 (nth i (snd (m_count_by rows k)) [])
  = length (filter (fun v => negb (is_null v)) (field_values k (nth i rows None))).
Proof.
  intro Hi. rewrite row_cells_spec by exact Hi. unfold spec_count_cell.
  fold (cell_sum (map (fun c => match occurrences c (field_values k (nth i rows None)) with
                                  | 0 => None | S n => Some (S n) end) (cats_of rows k))).
  change (cell_sum (map (fun c => count_cell (occurrences c (field_values k (nth i rows None)))) (cats_of rows k))
          = length (filter (fun v => negb (is_null v)) (field_values k (nth i rows None)))).
  rewrite cell_sum_count. apply sum_occ_total.
  - apply dedupe_NoDup.
  - intros c Hc. apply cats_In in Hc. tauto.
  - intros v Hv Hn. apply cats_In. split; [exact Hn|]. exists (nth i rows None). split; [apply nth_In; exact Hi | exact Hv].
Qed.

Print Assumptions count_by_columns.
Print Assumptions count_by_columns_nodup.
Print Assumptions count_by_shape.
Print Assumptions count_by_cell.
Print Assumptions count_by_missing_row.
Print Assumptions count_by_total.
