(* Proofs_FrameRows.v — row selection and reordering of a frame move each row's nested tables together with its base values (C05). *)
From Coq Require Import String List Arith Bool ZArith Lia.
Import ListNotations.
From NP Require Import Base Values Arrow Abs Kernels Logical ExtArray Codec Steps FrameRows Proofs_Views Proofs_Codec Proofs_Select.

(* ---------- the take kernel on a column that is only well-formed (wf_b, not the full inv_b) ---------- *)

Lemma wf_rows p : wf_b p = true -> rows_of (abs p) = dec_rows (decode p).
Proof.
  intro H. rewrite (abs_decode p H). apply rows_of_dec; [apply decode_shape, H|apply decode_valid, H].
Qed.

Lemma dsel_valid d ix : dec_valid_b d = true -> dec_valid_b (dsel ix d) = true.
Proof.
  intro Hv. unfold dec_valid_b, dsel in *. cbn [fst snd]. rewrite forallb_forall in *.
  intros col Hc. apply in_map_iff in Hc as (c & <- & Hc).
  apply forallb2_sel; [apply Hv, Hc|reflexivity].
Qed.

Lemma dsel_rect d ix : dec_rect_b d = true -> dec_rect_b (dsel ix d) = true.
Proof.
  intro Hr. unfold dec_rect_b, dsel in *. cbn [fst snd]. destruct (snd d) as [|c0 t]; [reflexivity|].
  cbn [map]. rewrite forallb_forall in *. intros col Hc. apply in_map_iff in Hc as (c & <- & Hc).
  specialize (Hr c Hc). apply (list_eqb_spec Nat.eqb Nat.eqb_eq) in Hr.
  apply (list_eqb_spec Nat.eqb Nat.eqb_eq). unfold dec_lens in *. rewrite !map_sel, Hr. reflexivity.
Qed.

Lemma dsel_norm d ix : dec_norm_b d = true -> dec_norm_b (dsel ix d) = true.
Proof.
  intro Hn. unfold dec_norm_b, dsel in *. cbn [fst snd]. rewrite forallb_forall in *.
  intros col Hc. apply in_map_iff in Hc as (c & <- & Hc).
  apply forallb2_sel; [apply Hn, Hc|reflexivity].
Qed.

(* the rows of a take, for any index list, from well-formedness alone *)
Lemma wf_take_rows p ix : wf_b p = true ->
  rows_of (abs (k_take p ix)) =
  map (fun oi => match oi with Some i => nth i (rows_of (abs p)) None | None => None end) ix.
Proof.
  intro H. rewrite k_take_dsel.
  pose proof (dsel_shape _ _ ix (decode_shape p H)) as Hs.
  pose proof (dsel_valid _ ix (decode_valid p H)) as Hv.
  rewrite (abs_encode _ _ Hs), (rows_of_dec _ _ Hs Hv), dec_rows_dsel, (wf_rows p H). reflexivity.
Qed.

Lemma wf_take_row p pos j : wf_b p = true -> j < length pos ->
  nth j (rows_of (abs (k_take p (map Some pos)))) None = nth (nth j pos 0) (rows_of (abs p)) None.
Proof.
  intros H Hj. rewrite (wf_take_rows p _ H), map_map.
  apply (nth_map_in (fun i => nth i (rows_of (abs p)) None) pos j None 0 Hj).
Qed.

Lemma m_len_encode sch d : m_len (encode sch d) = length (fst d).
Proof. unfold m_len, ca_len, encode, sc_len. cbn [chunks map svalid sum]. lia. Qed.

Lemma m_len_k_take p ix : m_len (k_take p ix) = length ix.
Proof. rewrite k_take_dsel, m_len_encode. unfold dsel. cbn [fst]. apply length_sel. Qed.

Lemma chunks_k_take p ix : length (chunks (k_take p ix)) = 1.
Proof. reflexivity. Qed.

(* well-formedness of an encoded column *)
Lemma encode_wf sch d : sch <> [] -> dec_shape_b (length sch) d = true -> dec_valid_b d = true ->
  dec_rect_b d = true -> wf_b (encode sch d) = true.
Proof.
  intros Hne Hs Hv Hr. pose proof (dec_shape_spec _ _ Hs) as [Hlen _].
  rewrite encode_unfold. unfold wf_b. cbn [ctype chunks forallb].
  rewrite (encode_wf_chunk sch d Hs), (encode_same_offsets sch d Hr), (encode_lists_valid sch d (eq_sym Hlen) Hv).
  destruct sch; [congruence|reflexivity].
Qed.

(* a take of a well-formed column whose decoded rows are rectangular is well-formed *)
Lemma wf_take_rect p ix : wf_b p = true -> dec_rect_b (decode p) = true -> wf_b (k_take p ix) = true.
Proof.
  intros H Hr. rewrite k_take_dsel. apply encode_wf.
  - apply wf_b_spec in H. tauto.
  - apply dsel_shape, decode_shape, H.
  - apply dsel_valid, decode_valid, H.
  - apply dsel_rect, Hr.
Qed.

Lemma wf_take_norm p ix : wf_b p = true -> norm_missing_all_b p = true ->
  wf_b (k_take p ix) = true /\ norm_missing_all_b (k_take p ix) = true.
Proof.
  intros H Hn. pose proof (wf_b_col_ok p H Hn) as Hok. split.
  - apply wf_take_rect; [exact H|apply decode_rect, Hok].
  - rewrite k_take_dsel.
    pose proof (dsel_shape _ _ ix (decode_shape p H)) as Hs. apply dec_shape_spec in Hs as [Hlen _].
    rewrite encode_unfold. unfold norm_missing_all_b. cbn [chunks forallb]. rewrite andb_true_r.
    apply encode_norm_missing; [symmetry; exact Hlen|apply dsel_norm, decode_norm, Hok].
Qed.

(* a filter is a take of the true positions (from well-formedness alone) *)
Lemma wf_filter_take p m : wf_b p = true -> length m = m_len p ->
  k_filter p m = k_take p (map Some (true_positions m)).
Proof.
  intros H Hm. pose proof (decode_shape p H) as Hs.
  apply dec_shape_parts in Hs as [_ Hs]. rewrite <- length_fst_decode in Hm.
  unfold k_filter, k_take. f_equal. f_equal.
  - apply mask_filter_sel. lia.
  - apply map_ext_in. intros col Hc. apply mask_filter_sel. rewrite (Hs col Hc). lia.
Qed.

Lemma length_true_positions_from : forall m k, length (true_positions_from k m) = count_true m.
Proof.
  unfold count_true. induction m as [|b m IH]; intro k; [reflexivity|].
  cbn [true_positions_from filter]. destruct b; cbn [length]; rewrite IH; reflexivity.
Qed.

Lemma length_true_positions m : length (true_positions m) = count_true m.
Proof. apply length_true_positions_from. Qed.

(* ---------- the components of frame_ok ---------- *)

Lemma frame_ok_spec n F : frame_ok n F = true ->
  forall nc, In nc F -> col_len (snd nc) = n /\
    match snd nc with FNested p => wf_b p = true /\ chunks p <> [] | FBase _ => True end.
Proof.
  unfold frame_ok. rewrite forallb_forall. intros H nc Hin. specialize (H nc Hin).
  apply andb_true_iff in H as [H1 H2]. apply Nat.eqb_eq in H1. split; [exact H1|].
  destruct (snd nc) as [vs|p]; [exact I|].
  apply andb_true_iff in H2 as [H2 H3]. split; [exact H2|].
  intro E. rewrite E in H3. discriminate.
Qed.

(* ---------- cells ---------- *)

Lemma col_cell_take c n pos j : col_len c = n ->
  match c with FNested p => wf_b p = true | FBase _ => True end ->
  j < length pos ->
  col_cell (col_take c pos) j = col_cell c (nth j pos 0).
Proof.
  intros Hn Hwf Hj. destruct c as [vs|p]; cbn [col_take col_cell]; f_equal.
  - apply (nth_map_in (fun i => nth i vs VNull) pos j VNull 0 Hj).
  - apply wf_take_row; assumption.
Qed.

(* taking positions pos: row j of the result is row pos[j] of the input, base values and nested tables alike *)
Theorem take_moves_whole_rows F n pos j : frame_ok n F = true ->
  forallb (fun i => i <? n) pos = true -> j < length pos ->
  frame_row (f_take F pos) j = frame_row F (nth j pos 0).
Proof.
  intros Hok _ Hj. pose proof (frame_ok_spec n F Hok) as Hs.
  unfold frame_row, f_take. rewrite map_map. apply map_ext_in. intros nc Hin. cbn [fst snd]. f_equal.
  destruct (Hs nc Hin) as [Hn Hw]. apply (col_cell_take _ n); [exact Hn| |exact Hj].
  destruct (snd nc); [exact I|tauto].
Qed.

Lemma col_cell_filter c m j : length m = col_len c ->
  match c with FNested p => wf_b p = true | FBase _ => True end ->
  j < count_true m ->
  col_cell (col_filter c m) j = col_cell c (nth j (true_positions m) 0).
Proof.
  intros Hm Hwf Hj. rewrite <- length_true_positions in Hj.
  destruct c as [vs|p]; cbn [col_filter col_cell col_len] in *; f_equal.
  - rewrite (mask_filter_sel VNull m vs) by lia. unfold sel. rewrite map_map.
    apply (nth_map_in (fun i => nth i vs VNull) (true_positions m) j VNull 0 Hj).
  - rewrite (wf_filter_take p m Hwf Hm). apply wf_take_row; assumption.
Qed.

(* a boolean mask keeps exactly the rows where it is true, whole, in order *)
Theorem filter_keeps_whole_rows F n m j : frame_ok n F = true -> length m = n -> j < count_true m ->
  frame_row (f_filter F m) j = frame_row F (nth j (true_positions m) 0).
Proof.
  intros Hok Hm Hj. pose proof (frame_ok_spec n F Hok) as Hs.
  unfold frame_row, f_filter. rewrite map_map. apply map_ext_in. intros nc Hin. cbn [fst snd]. f_equal.
  destruct (Hs nc Hin) as [Hn Hw]. apply col_cell_filter; [lia| |exact Hj].
  destruct (snd nc); [exact I|tauto].
Qed.

(* ---------- the result is again a frame ----------

   take_frame_ok AS ORIGINALLY STATED (from frame_ok alone) IS FALSE.  frame_ok asks only wf_b of a nested column,
   and wf_b allows a MISSING row to hide a non-empty list in one field and a null list (same offsets window) in
   another; the decoded lists of that row then have different lengths, the take kernel re-encodes them compactly and
   the fields of the result no longer have the same offsets (same_offsets_b, hence wf_b, fails).  Counterexample
   (one missing row; field a: offsets [0;1], valid list; field b: offsets [0;1], null list):

   Definition cx_p : chunked :=
     {| ctype := [("a"%string, TI64); ("b"%string, TI64)];
        chunks := [ {| svalid := [false];
                       sfields := [ {| fname := "a"%string; fty := TI64;
                                       farr := {| offs := [0;1]; lvalid := [true]; child := [VInt 1] |} |};
                                    {| fname := "b"%string; fty := TI64;
                                       farr := {| offs := [0;1]; lvalid := [false]; child := [VInt 2] |} |} ] |} ] |}.
   Definition cx_F : fframe := [("n"%string, FNested cx_p)].
   Eval vm_compute in (frame_ok 1 cx_F, forallb (fun i => i <? 1) [0], frame_ok 1 (f_take cx_F [0])).
        = (true, true, false)
   Eval vm_compute in (norm_missing_all_b cx_p, dec_rect_b (decode cx_p)).
        = (false, false)

   Repair: the extra premise frame_norm F = true (every nested column satisfies norm_missing_all_b, the layout part
   of inv_b: a missing row has zero-length windows everywhere).  frame_ok2 = frame_ok && frame_norm is preserved by
   f_take (take_frame_ok2).  The weakest condition the proof uses is frame_rect (the decoded rows of every nested
   column are rectangular), see take_frame_ok_rect. *)

Definition frame_norm (F : fframe) : bool :=
  forallb (fun nc => match snd nc with FNested p => norm_missing_all_b p | FBase _ => true end) F.
Definition frame_ok2 (n : nat) (F : fframe) : bool := frame_ok n F && frame_norm F.

Definition frame_rect (F : fframe) : bool :=
  forallb (fun nc => match snd nc with FNested p => dec_rect_b (decode p) | FBase _ => true end) F.

Module Counterexample.
  Definition cx_p : chunked :=
    {| ctype := [("a"%string, TI64); ("b"%string, TI64)];
       chunks := [ {| svalid := [false];
                      sfields := [ {| fname := "a"%string; fty := TI64;
                                      farr := {| offs := [0;1]; lvalid := [true]; child := [VInt 1] |} |};
                                   {| fname := "b"%string; fty := TI64;
                                      farr := {| offs := [0;1]; lvalid := [false]; child := [VInt 2] |} |} ] |} ] |}.
  Definition cx_F : fframe := [("n"%string, FNested cx_p)].
  (* the original statement of take_frame_ok is refuted *)
  Lemma take_frame_ok_original_false :
    ~ (forall F n pos, frame_ok n F = true -> forallb (fun i => i <? n) pos = true ->
                       frame_ok (length pos) (f_take F pos) = true).
  Proof. intro H. specialize (H cx_F 1 [0] eq_refl eq_refl). vm_compute in H. discriminate. Qed.
End Counterexample.

Lemma col_len_take c pos : col_len (col_take c pos) = length pos.
Proof. destruct c as [vs|p]; cbn [col_take col_len]; [apply map_length|rewrite m_len_k_take; apply map_length]. Qed.

Lemma frame_norm_rect n F : frame_ok n F = true -> frame_norm F = true -> frame_rect F = true.
Proof.
  intros Hok Hn. pose proof (frame_ok_spec n F Hok) as Hs. unfold frame_norm, frame_rect in *.
  rewrite forallb_forall in *. intros nc Hin. specialize (Hn nc Hin). destruct (Hs nc Hin) as [_ Hw].
  destruct (snd nc) as [vs|p]; [reflexivity|]. apply decode_rect, wf_b_col_ok; tauto.
Qed.

(* the weakest form: rectangular decoded rows suffice *)
Theorem take_frame_ok_rect F n pos : frame_ok n F = true -> frame_rect F = true ->
  frame_ok (length pos) (f_take F pos) = true.
Proof.
  intros Hok Hr. pose proof (frame_ok_spec n F Hok) as Hs.
  unfold frame_ok, f_take, frame_rect in *. rewrite forallb_forall in Hr. rewrite forallb_map. apply forallb_forall.
  intros nc Hin. cbn [snd]. rewrite col_len_take, Nat.eqb_refl. cbn [andb].
  specialize (Hr nc Hin). destruct (Hs nc Hin) as [_ Hw].
  destruct (snd nc) as [vs|p]; cbn [col_take]; [reflexivity|].
  rewrite (wf_take_rect p _ (proj1 Hw) Hr). reflexivity.
Qed.

(* the result is again a frame whose columns have one length
   (REPAIRED: extra premise frame_norm F = true, see the counterexample above) *)
Theorem take_frame_ok F n pos : frame_ok n F = true -> frame_norm F = true ->
  forallb (fun i => i <? n) pos = true ->
  frame_ok (length pos) (f_take F pos) = true.
Proof.
  intros Hok Hn _. apply (take_frame_ok_rect F n pos Hok). apply (frame_norm_rect n F Hok Hn).
Qed.

Lemma take_frame_norm F n pos : frame_ok n F = true -> frame_norm F = true -> frame_norm (f_take F pos) = true.
Proof.
  intros Hok Hn. pose proof (frame_ok_spec n F Hok) as Hs. unfold frame_norm, f_take in *.
  rewrite forallb_forall in Hn. rewrite forallb_map. apply forallb_forall. intros nc Hin. cbn [snd].
  specialize (Hn nc Hin). destruct (Hs nc Hin) as [_ Hw].
  destruct (snd nc) as [vs|p]; cbn [col_take]; [reflexivity|].
  apply wf_take_norm; tauto.
Qed.

(* the strengthened frame invariant is preserved by take (so it can be iterated) *)
Theorem take_frame_ok2 F n pos : frame_ok2 n F = true -> forallb (fun i => i <? n) pos = true ->
  frame_ok2 (length pos) (f_take F pos) = true.
Proof.
  unfold frame_ok2. rewrite !andb_true_iff. intros [Hok Hn] Hp. split.
  - apply (take_frame_ok F n pos Hok Hn Hp).
  - apply (take_frame_norm F n pos Hok Hn).
Qed.

Print Assumptions take_moves_whole_rows.
Print Assumptions filter_keeps_whole_rows.
Print Assumptions take_frame_ok.
Print Assumptions take_frame_ok_rect.
Print Assumptions take_frame_ok2.
Print Assumptions Counterexample.take_frame_ok_original_false.
