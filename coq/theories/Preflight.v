(* Preflight.v — which layer a query expression belongs to (nestedframe/expr.py _subexprs_by_nest, core.py
   extract_nest_names and the routing of NestedFrame.query).  An expression tree has non-constant terms (each resolved to a
   layer: 0 = the base layer, k > 0 = the k-th nested column), constants, and operator nodes that keep their children in
   `operands` (binary operators, unary ~ and -, math function calls).  The preflight returns the set of layers of the
   terms (the keys of the dictionary; in insertion order); more than one layer is refused; otherwise the expression is
   evaluated and routed by what it produced: a series unpacked from a nest filters inside that nest, anything else selects
   whole rows.  Definitions only. *)
From Coq Require Import List Arith Bool.
Import ListNotations.
From NP Require Import Base.

Inductive opkind := KBinary | KUnary | KCall.
Inductive qx := QField (layer : nat) | QConst | QOp (kind : opkind) (operands : list qx).

Definition add_key (acc : list nat) (k : nat) : list nat := if existsb (Nat.eqb k) acc then acc else acc ++ [k].
Definition add_keys (acc ks : list nat) : list nat := fold_left add_key ks acc.

(* keys of _subexprs_by_nest(parents, node), in insertion order *)
Fixpoint q_keys (e : qx) : list nat :=
  match e with
  | QField l => [l]
  | QConst => []
  | QOp _ args => (fix go (l : list qx) (acc : list nat) : list nat :=
                     match l with [] => acc | a :: t => go t (add_keys acc (q_keys a)) end) args []
  end.

Inductive qroute := QBase | QNest (k : nat) | QRefuse.
(* query: refused when the preflight sees more than one layer; else evaluated: an expression over fields of nest k
   produces a series unpacked from that nest (nested filter), an expression over base columns (or constants only)
   selects whole rows *)
Definition m_query_route (e : qx) : qroute :=
  match q_keys e with
  | [] => QBase
  | [0] => QBase
  | [S k] => QNest (S k)
  | _ => QRefuse
  end.

(* the specification: the layers that occur in the expression *)
Fixpoint occurs (l : nat) (e : qx) : bool :=
  match e with
  | QField l' => l =? l'
  | QConst => false
  | QOp _ args => existsb (occurs l) args
  end.

(* the preflight as it was before the repair 99702bc: only nodes with lhs / rhs (binary operators) were descended into *)
Fixpoint q_keys_unrepaired (e : qx) : list nat :=
  match e with
  | QField l => [l]
  | QConst => []
  | QOp KBinary args => (fix go (l : list qx) (acc : list nat) : list nat :=
                           match l with [] => acc | a :: t => go t (add_keys acc (q_keys_unrepaired a)) end) args []
  | QOp _ _ => []
  end.
