(* Io.v — the library's glue around parquet (nestedframe/io.py, core.py to_parquet): the regrouping of partially loaded
   dotted columns as a pure function on column names / positions.  The file format itself lives in Arrow C++ and
   enters as a contract (what pyarrow.parquet.read_table(columns=...) returns: one column per requested name, a dotted
   request 'n.a' coming back as the leaf list column named 'a').  Definitions only.

     for i, (col_in, col_pa) in enumerate(zip(columns, table.column_names)):
         if col_in != col_pa:                      # a partial load of a nested structure
             nested_col = col_in.split(".")[0]
             if not is_list(type_i): reject nested_col, forget its indices
             elif nested_col not in reject: nested_structures[nested_col].append(i)
     a requested FULL column that is also partially loaded -> ValueError
     structs[col] = table.select(indices).to_struct_array()
     for i in sorted(indices_to_remove, reverse=True): table = table.remove_column(i)
     for col, struct in structs.items(): table = table.append_column(col, struct)                         *)
From Coq Require Import String List Arith Bool.
Import ListNotations.
From NP Require Import Base Values Dtype Names.

(* one requested column as the reader sees it: requested name, name of the column pyarrow returned, is it a list column *)
Record reqcol := { rq_in : str; rq_pa : str; rq_list : bool }.

Definition nest_of (col_in : str) : str := hd [] (split1 DOT col_in []).

(* the dictionary nested_structures: nest -> positions, in first-seen order *)
Fixpoint dict_append (d : list (str * list nat)) (k : str) (i : nat) : list (str * list nat) :=
  match d with
  | [] => [(k, [i])]
  | (k', l) :: t => if str_eqb k' k then (k', l ++ [i]) :: t else (k', l) :: dict_append t k i
  end.
Definition dict_pop (d : list (str * list nat)) (k : str) : list (str * list nat) :=
  filter (fun kv => negb (str_eqb (fst kv) k)) d.

(* the scan: (reject list, nested_structures) *)
Fixpoint scan (i : nat) (cols : list reqcol) (reject : list str) (d : list (str * list nat)) : list str * list (str * list nat) :=
  match cols with
  | [] => (reject, d)
  | c :: t =>
      if str_eqb (rq_in c) (rq_pa c) then scan (S i) t reject d else
      let n := nest_of (rq_in c) in
      if negb (rq_list c) then scan (S i) t (reject ++ [n]) (dict_pop d n)
      else if mem_str n reject then scan (S i) t reject d
      else scan (S i) t reject (dict_append d n i)
  end.

(* table.remove_column(i) *)
Definition remove_nth {A} (i : nat) (l : list A) : list A := firstn i l ++ skipn (S i) l.
(* sorted(indices, reverse=True) *)
Fixpoint ins_desc (x : nat) (l : list nat) : list nat :=
  match l with [] => [x] | y :: t => if y <=? x then x :: y :: t else y :: ins_desc x t end.
Definition sort_desc (l : list nat) : list nat := fold_right ins_desc [] l.
Definition remove_all {A} (idx : list nat) (l : list A) : list A := fold_left (fun acc i => remove_nth i acc) (sort_desc idx) l.

Inductive outcol := OFlat (name : str) | OStruct (nest : str) (fields : list str).

(* the columns of the table handed to pandas: the untouched ones in table order, then one struct per partially loaded nest *)
Definition m_regroup (initial_reject : list str) (cols : list reqcol) : res (list str * list outcol) :=
  let '(reject, d) := scan 0 cols initial_reject [] in
  if existsb (fun c => mem_str (rq_in c) (map fst d)) cols then Err else
  let idx := concat (map snd d) in
  let kept := remove_all idx (map (fun c => OFlat (rq_pa c)) cols) in
  Ok (reject, kept ++ map (fun kv => OStruct (fst kv) (map (fun i => rq_pa (nth i cols {| rq_in := []; rq_pa := []; rq_list := false |})) (snd kv))) d).

(* the specification, written from the property: exactly the columns that are not part of a regrouped nest, in request order,
   followed by one struct per partially loaded (and not rejected) nest holding its requested fields in request order *)
Definition grouped_positions (cols : list reqcol) (reject : list str) (d : list (str * list nat)) : list nat := concat (map snd d).
Definition spec_kept (cols : list reqcol) (idx : list nat) : list outcol :=
  map (fun p => OFlat (rq_pa (snd p))) (filter (fun p => negb (existsb (Nat.eqb (fst p)) idx)) (combine (seq 0 (length cols)) cols)).
