(* Heap.v — object identity for C15: in a functional model nothing mutates, so objects are modelled explicitly.
   An object (frame, series) holds its nested column in an ARRAY CELL (the NestedExtensionArray object); a cell points
   to immutable Arrow storage, here just a version number.  The library's writers never write into storage:
     - element assignment (array[k] = v, loc / iloc on the owner) REBINDS THE CELL's storage: every object holding that
       cell shows the change (pandas hands the same array object to a Series extracted from a frame)   (HWriteCell)
     - field assignment, inplace query / sort / dropna / eval, nest[f] = ... build a new array and REBIND THE OBJECT's
       column to a fresh cell: only the target shows it                                               (HRebind)
     - every operation that returns a new object allocates fresh cells for the result and touches nothing (HPure)
     - copy(deep=True) allocates a fresh cell pointing to the same (immutable) storage.
   Definitions only. *)
From Coq Require Import List Arith Bool.
Import ListNotations.

Record hstate := { cell_of : list (nat * nat);       (* object id -> cell id *)
                   store : list (nat * nat);         (* cell id -> storage version *)
                   next : nat }.                     (* fresh ids / versions *)
Inductive hop := HPure | HRebind (o : nat) | HWriteCell (o : nat) | HDeepCopy (src dst : nat).

Definition lookup (k : nat) (l : list (nat * nat)) : option nat :=
  option_map snd (find (fun p => fst p =? k) l).
Definition update (k v : nat) (l : list (nat * nat)) : list (nat * nat) :=
  (k, v) :: filter (fun p => negb (fst p =? k)) l.

Definition observe (s : hstate) (o : nat) : option nat :=
  match lookup o (cell_of s) with Some c => lookup c (store s) | None => None end.
Definition shares (s : hstate) (a b : nat) : bool :=
  match lookup a (cell_of s), lookup b (cell_of s) with Some x, Some y => x =? y | _, _ => false end.

Definition h_step (s : hstate) (o : hop) : hstate :=
  match o with
  | HPure => s
  | HWriteCell t =>
      match lookup t (cell_of s) with
      | Some c => {| cell_of := cell_of s; store := update c (next s) (store s); next := S (next s) |}
      | None => s
      end
  | HRebind t =>
      match lookup t (cell_of s) with
      | Some _ => {| cell_of := update t (next s) (cell_of s); store := update (next s) (S (next s)) (store s); next := S (S (next s)) |}
      | None => s
      end
  | HDeepCopy src dst =>
      match observe s src with
      | Some v => {| cell_of := update dst (next s) (cell_of s); store := update (next s) v (store s); next := S (next s) |}
      | None => s
      end
  end.
Definition h_run (s : hstate) (ops : list hop) : hstate := fold_left h_step ops s.

(* all ids in use are below next: what makes "fresh" fresh *)
Definition h_wf (s : hstate) : bool :=
  forallb (fun p => snd p <? next s) (cell_of s) && forallb (fun p => (fst p <? next s) && (snd p <? next s)) (store s).

(* the family of the stream: 0 orig, 1 deep copy, 2 row slice, 3 column selection, 4 extracted series (shares orig's cell),
   5 deep copy of the series *)
Definition family_heap : hstate :=
  {| cell_of := [(0, 10); (1, 11); (2, 12); (3, 13); (4, 10); (5, 15)];
     store := [(10, 20); (11, 20); (12, 21); (13, 20); (15, 20)]; next := 30 |}.

(* the stream's monitor: along the sequence the deep copies never come to share a cell with anything else *)
Definition heap_seq_ok (ops : list hop) : bool :=
  let s := h_run family_heap ops in
  forallb (fun b => negb (shares s 1 b)) [0; 2; 3; 4; 5] && forallb (fun b => negb (shares s 5 b)) [0; 1; 2; 3; 4].
