(* Proofs_Glue.v — from_lists packs exactly the list columns and keeps exactly the base columns (C09 / C18);
   the parquet reader makes exactly the well-formed, not rejected struct-of-lists columns nested (C08 / C18). *)
From Coq Require Import String List Arith Bool Lia.
Import ListNotations.
From NP Require Import Base Values Dtype Names Glue.

(* Audit note: before proving, every statement below was tested exhaustively on small instances with vm_compute
   (scratch/T.v: cols, base, lists over all lists of length <= 3 of the names [97],[98], including the empty list, names
   absent from the frame and duplicates; the reader over all column lists of length <= 3 of (name, kind) pairs, duplicates
   of a name with different kinds included, against all reject lists of length <= 2).  No counterexample was found: all
   seven statements are true AS GIVEN and are proved unchanged. *)

(* ---------- helpers ---------- *)
Lemma str_eqb_eq a b : str_eqb a b = true <-> a = b.
Proof. unfold str_eqb. apply list_eqb_spec. intros x y. apply Nat.eqb_eq. Qed.
Lemma mem_str_In x l : mem_str x l = true <-> In x l.
Proof.
  unfold mem_str. rewrite existsb_exists. split.
  - intros [y [Hy E]]. apply str_eqb_eq in E. subst. exact Hy.
  - intro H. exists x. split; [exact H|apply str_eqb_eq; reflexivity].
Qed.
Lemma filter_nil_iff (A : Type) (f : A -> bool) l : filter f l = [] <-> forall x, In x l -> f x = false.
Proof.
  induction l as [|a t IH]; simpl.
  - split; [intros _ x []|reflexivity].
  - destruct (f a) eqn:E; split.
    + discriminate.
    + intro H. rewrite (H a (or_introl eq_refl)) in E. discriminate.
    + intros H x [<-|Hx]; [exact E|]. apply IH; assumption.
    + intro H. apply IH. intros x Hx. apply H. right. exact Hx.
Qed.
Lemma split_by_filter cols (m : list str) c :
  In c cols ->
  (mem_str c m = true \/ In c (filter (fun c => negb (mem_str c m)) cols)) /\
  ~ (mem_str c m = true /\ In c (filter (fun c => negb (mem_str c m)) cols)).
Proof.
  intro Hc. split.
  - destruct (mem_str c m) eqn:E; [left; reflexivity|right]. apply filter_In. split; [exact Hc|]. rewrite E. reflexivity.
  - intros [E H]. apply filter_In in H as [_ H]. rewrite E in H. discriminate.
Qed.

(* 1. when only one of the two lists is given, the columns of the frame are split: every column is a list column or a base
      column, never both, in frame order *)
Theorem from_lists_split_by_lists cols l b l' :
  m_from_lists_columns cols None (Some l) = Ok (b, l') ->
  l' = l /\ b = Some (filter (fun c => negb (mem_str c l)) cols) /\
  forall c, In c cols -> (mem_str c l = true \/ In c (match b with Some x => x | None => [] end)) /\
                         ~ (mem_str c l = true /\ In c (match b with Some x => x | None => [] end)).
Proof.
  unfold m_from_lists_columns. destruct l as [|x t]; [discriminate|]. intro H. inversion H; subst. clear H.
  split; [reflexivity|]. split; [reflexivity|]. intros c Hc. apply split_by_filter. exact Hc.
Qed.
Theorem from_lists_split_by_base cols b0 b l :
  m_from_lists_columns cols (Some b0) None = Ok (b, l) ->
  b = Some b0 /\ l = filter (fun c => negb (mem_str c b0)) cols /\
  forall c, In c cols -> (mem_str c b0 = true \/ In c l) /\ ~ (mem_str c b0 = true /\ In c l).
Proof.
  unfold m_from_lists_columns. destruct (filter (fun c => negb (mem_str c b0)) cols) as [|x t] eqn:F; [discriminate|].
  intro H. inversion H; subst. clear H. split; [reflexivity|]. split; [reflexivity|]. intros c Hc.
  rewrite <- F. apply split_by_filter. exact Hc.
Qed.
(* 2. nothing given: everything is packed and the result holds the nested column only *)
Theorem from_lists_all cols b l name :
  m_from_lists_columns cols None None = Ok (b, l) -> l = cols /\ b = None /\ m_from_lists_result b name = [name].
Proof.
  unfold m_from_lists_columns. destruct cols as [|x t]; [discriminate|]. intro H. inversion H; subst.
  repeat split; reflexivity.
Qed.
(* 3. refused exactly when no list column remains *)
Theorem from_lists_refused cols base lists :
  m_from_lists_columns cols base lists = Err <->
  match base, lists with
  | None, None => cols = []
  | _, Some l => l = []
  | Some b, None => forall c, In c cols -> mem_str c b = true
  end.
Proof.
  unfold m_from_lists_columns. destruct base as [b|], lists as [l|].
  - destruct l; split; intro H; try reflexivity; discriminate.
  - destruct (filter (fun c => negb (mem_str c b)) cols) as [|x t] eqn:F; split; intro H.
    + intros c Hc. apply (proj1 (filter_nil_iff _ _ _) F) in Hc. apply negb_false_iff in Hc. exact Hc.
    + reflexivity.
    + discriminate.
    + exfalso. assert (F' : filter (fun c => negb (mem_str c b)) cols = []).
      { apply filter_nil_iff. intros c Hc. rewrite (H c Hc). reflexivity. }
      rewrite F' in F. discriminate.
  - destruct l; split; intro H; try reflexivity; discriminate.
  - destruct cols; split; intro H; try reflexivity; discriminate.
Qed.

(* 4. the reader: one output per column, names in order; nested exactly for well-formed struct-of-lists columns that are not
      rejected; refused exactly when some not rejected struct-of-lists column is ragged *)
(* one step of the reader, when it succeeds *)
Lemma cast_cols_cons_ok nm k t reject out :
  m_cast_cols ((nm, k) :: t) reject = Ok out ->
  exists r, m_cast_cols t reject = Ok r /\
    out = (nm, match k with KStructLists true => if mem_str nm reject then CUnchanged else CNested | _ => CUnchanged end) :: r /\
    (k = KStructLists false -> mem_str nm reject = true).
Proof.
  cbn [m_cast_cols]. intro H. destruct k as [|rect|].
  - destruct (m_cast_cols t reject) as [r|]; [|discriminate]. inversion H; subst. exists r. repeat split; discriminate.
  - destruct (mem_str nm reject) eqn:Em.
    + destruct (m_cast_cols t reject) as [r|]; [|discriminate]. inversion H; subst. exists r.
      split; [reflexivity|]. split; [destruct rect; reflexivity|reflexivity].
    + destruct rect; [|discriminate]. destruct (m_cast_cols t reject) as [r|]; [|discriminate]. inversion H; subst.
      exists r. repeat split; discriminate.
  - destruct (m_cast_cols t reject) as [r|]; [|discriminate]. inversion H; subst. exists r. repeat split; discriminate.
Qed.
Theorem cast_cols_shape cols reject out :
  m_cast_cols cols reject = Ok out -> map fst out = map fst cols.
Proof.
  revert out. induction cols as [|[nm k] t IH]; intros out H.
  - inversion H. reflexivity.
  - apply cast_cols_cons_ok in H as [r [Hr [-> Hk]]]. cbn [map fst]. f_equal. apply IH. exact Hr.
Qed.
Theorem cast_cols_nested cols reject out i nm k :
  m_cast_cols cols reject = Ok out -> nth_error cols i = Some (nm, k) ->
  nth_error out i = Some (nm, match k with KStructLists true => if mem_str nm reject then CUnchanged else CNested | _ => CUnchanged end)
  /\ (k = KStructLists false -> mem_str nm reject = true).
Proof.
  revert out i. induction cols as [|[nm0 k0] t IH]; intros out i H Hi.
  - destruct i; discriminate.
  - apply cast_cols_cons_ok in H as [r [Hr [-> Hk]]]. destruct i as [|i].
    + cbn [nth_error] in *. inversion Hi; subst. split; [reflexivity|exact Hk].
    + cbn [nth_error] in *. apply IH; assumption.
Qed.
Theorem cast_cols_refused cols reject :
  m_cast_cols cols reject = Err <-> exists nm, In (nm, KStructLists false) cols /\ mem_str nm reject = false.
Proof.
  induction cols as [|[nm0 k0] t IH].
  - split; [discriminate|]. intros [nm [[] _]].
  - destruct (m_cast_cols ((nm0, k0) :: t) reject) as [out|] eqn:E; split; intro H.
    + discriminate.
    + exfalso. apply cast_cols_cons_ok in E as [r [Hr [_ Hk]]]. destruct H as [nm [[Heq|Hin] Hm]].
      * inversion Heq; subst. rewrite (Hk eq_refl) in Hm. discriminate.
      * assert (X : m_cast_cols t reject = Err) by (apply IH; exists nm; split; assumption).
        rewrite X in Hr. discriminate.
    + cbn [m_cast_cols] in E. destruct k0 as [|rect|].
      * destruct (m_cast_cols t reject) eqn:Et; [discriminate|]. destruct (proj1 IH eq_refl) as [nm [Hin Hm]].
        exists nm. split; [right; exact Hin|exact Hm].
      * destruct (mem_str nm0 reject) eqn:Em.
        -- destruct (m_cast_cols t reject) eqn:Et; [discriminate|]. destruct (proj1 IH eq_refl) as [nm [Hin Hm]].
           exists nm. split; [right; exact Hin|exact Hm].
        -- destruct rect.
           ++ destruct (m_cast_cols t reject) eqn:Et; [discriminate|]. destruct (proj1 IH eq_refl) as [nm [Hin Hm]].
              exists nm. split; [right; exact Hin|exact Hm].
           ++ exists nm0. split; [left; reflexivity|exact Em].
      * destruct (m_cast_cols t reject) eqn:Et; [discriminate|]. destruct (proj1 IH eq_refl) as [nm [Hin Hm]].
        exists nm. split; [right; exact Hin|exact Hm].
    + reflexivity.
Qed.

Print Assumptions from_lists_split_by_lists.
Print Assumptions from_lists_split_by_base.
Print Assumptions from_lists_all.
Print Assumptions from_lists_refused.
Print Assumptions cast_cols_shape.
Print Assumptions cast_cols_nested.
Print Assumptions cast_cols_refused.
