(* Checks.v — the boolean judgements evaluated (vm_compute) on every generated case:
   flag A: model ≍ implementation, flag B: spec ≍ implementation, flag C: invariant monitors,
   flag S: harness self-check (abs of the physical read-back = independent logical read-back).
   Each chk_* returns [A; B; C; S]; *_detail variants return one flag per compared item. *)
From Coq Require Import String List Arith Bool ZArith.
Import ListNotations.
From NP Require Import Base Values Arrow Abs Kernels ExtArray Logical.

Definition failing (cases : list (nat * list bool)) : list (nat * list bool) :=
  filter (fun c => negb (forallb (fun b => b) (snd c))) cases.

Definition nat_list_eqb := list_eqb Nat.eqb.
Definition bool_list_eqb := list_eqb Bool.eqb.
Definition str_list_eqb := list_eqb String.eqb.
Definition olist_eqb : option (list val) -> option (list val) -> bool := option_eqb vlist_eqb.

(* ---------- C03: all views of one real object ---------- *)
Record views := {
  v_len : nat;
  v_isna : list bool;
  v_lengths : res (list nat);
  v_flat_length : res nat;
  v_offdiffs : res (list nat);          (* np.diff(list_offsets) *)
  v_list_index : res (list nat);
  v_names : res (list string);
  v_rows : lrows;                        (* iteration / to_numpy / item access, boxed *)
  v_flat : res (list nat * list (list val));   (* to_flat: index as ordinals, columns *)
  v_lists : res (list (list (option (list val))))   (* to_lists: per field per row, None = null list *)
}.

Definition denan_row (r : lrow) : lrow := option_map (map (map denan)) r.
Definition denan_rows (rs : lrows) : lrows := map denan_row rs.

Definition flat_eqb (a b : list nat * list (list val)) : bool :=
  nat_list_eqb (fst a) (fst b) && vll_eqb (snd a) (snd b).

Definition model_views_detail (P : chunked) (V : views) : list bool :=
  let names := map fst (ctype P) in
  [ m_len P =? v_len V;
    bool_list_eqb (m_isna P) (v_isna V);
    res_eqb nat_list_eqb (m_list_lengths P) (v_lengths V);
    res_eqb Nat.eqb (m_flat_length P) (v_flat_length V);
    res_eqb nat_list_eqb (res_map diffs (m_list_offsets P)) (v_offdiffs V);
    res_eqb nat_list_eqb (m_get_list_index P) (v_list_index V);
    res_eqb str_list_eqb (m_field_names P) (v_names V);
    lrows_eqb (denan_rows (m_rows P)) (v_rows V);
    res_eqb flat_eqb
      (res_map (fun r => (flat_repeat (seq 0 (length (fst r))) (fst r), snd r)) (m_to_flat P names))
      (v_flat V);
    res_eqb (list_eqb (list_eqb olist_eqb)) (m_to_lists P names) (v_lists V) ].

Definition spec_views_detail (L : lcol) (V : views) : list bool :=
  [ spec_len L =? v_len V;
    bool_list_eqb (spec_isna L) (v_isna V);
    res_eqb nat_list_eqb (Ok (spec_list_lengths L)) (v_lengths V);
    res_eqb Nat.eqb (Ok (spec_flat_length L)) (v_flat_length V);
    res_eqb nat_list_eqb (Ok (spec_offset_diffs L)) (v_offdiffs V);
    res_eqb nat_list_eqb (Ok (spec_list_index L)) (v_list_index V);
    res_eqb str_list_eqb (Ok (spec_field_names L)) (v_names V);
    lrows_eqb (denan_rows (rows_of L)) (v_rows V);
    res_eqb flat_eqb (Ok (spec_list_index L, spec_flat L)) (v_flat V);
    res_eqb (list_eqb (list_eqb olist_eqb)) (Ok (map (with_missing (lvalidity L)) (lcols L))) (v_lists V) ].

Definition all_true (l : list bool) : bool := forallb (fun b => b) l.

Definition chk_views (P : chunked) (L : lcol) (V : views) : list bool :=
  [ all_true (model_views_detail P V); all_true (spec_views_detail L V);
    wf_b P; lcol_eqb (abs P) L ].
Definition chk_views_detail (P : chunked) (L : lcol) (V : views) : list bool :=
  model_views_detail P V ++ spec_views_detail L V ++ [wf_b P; lcol_eqb (abs P) L].

(* ---------- generic column-valued operation (C05, C06, C19, C04) ---------- *)
(* m: the model's result, sp: the spec's result, impl: what the real library returned (logical
   read-back), P': the physical read-back of the real result when there is one *)
Definition chk_col (P : chunked) (L : lcol) (m : res chunked) (sp : res lcol) (impl : res lcol)
                   (P' : option chunked) : list bool :=
  [ res_eqb lcol_eqb (res_map abs m) impl;
    res_eqb lcol_eqb sp impl;
    match P' with Some q => wf_b q | None => true end;
    lcol_eqb (abs P) L && match P', impl with Some q, Ok l' => lcol_eqb (abs q) l' | _, _ => true end ].

(* element-valued operation (boxed row, compared modulo NaN=null) *)
Definition chk_row (P : chunked) (L : lcol) (m : res lrow) (sp : res lrow) (impl : res lrow) : list bool :=
  [ res_eqb lrow_eqb (res_map denan_row m) impl;
    res_eqb lrow_eqb (res_map denan_row sp) impl;
    true;
    lcol_eqb (abs P) L ].

(* a value offered as rows, ragged or not: the physical validity of everything born *)
Definition all_wf (ps : list chunked) : bool := forallb wf_b ps.
Definition all_wf_rect (ps : list chunked) : bool := forallb wf_rect_b ps.

(* ---------- C19: Arrow interchange ---------- *)
(* export to the list-of-structs orientation: per row the records, columnar *)
Definition chk_ls_export (P : chunked) (L : lcol) (impl : res lrows) : list bool :=
  [ res_eqb lrows_eqb (m_list_struct_rows P) impl;
    res_eqb lrows_eqb (Ok (rows_of L)) impl;
    true;
    lcol_eqb (abs P) L ].

(* import from the list-of-structs orientation *)
Definition chk_ls_import (sch : schema) (A : list lsarr) (expect : lcol) (impl : res lcol) (P' : option chunked) : list bool :=
  [ res_eqb lcol_eqb (res_map abs (m_init_from_ls sch A)) impl;
    res_eqb lcol_eqb (Ok expect) impl;
    match P' with Some q => wf_b q | None => true end;
    match P', impl with Some q, Ok l' => lcol_eqb (abs q) l' | _, _ => true end ].

(* ---------- frame-level operations on record-major rows (C02, C07, C09 - C13) ---------- *)
From NP Require Import Frame.
Definition chk_rows (m : res (list nrow)) (sp : res (list nrow)) (impl : res (list nrow)) : list bool :=
  [ res_eqb nrows_eqb m impl; res_eqb nrows_eqb sp impl; true; true ].
Definition ftable_eqb : ftable -> ftable -> bool :=
  list_eqb (fun a b => Z.eqb (fst a) (fst b) && record_eqb (snd a) (snd b)).
Definition packed_eqb : list (Z * list record) -> list (Z * list record) -> bool :=
  list_eqb (fun a b => Z.eqb (fst a) (fst b) && list_eqb record_eqb (snd a) (snd b)).
Definition rarg_eqb (a b : rarg) : bool :=
  match a, b with
  | RBase x, RBase y => val_eqb x y
  | RNested x, RNested y => vlist_eqb x y
  | _, _ => false
  end.
Definition calls_eqb : list (list rarg) -> list (list rarg) -> bool := list_eqb (list_eqb rarg_eqb).
Definition denan_calls (cs : list (list rarg)) : list (list rarg) :=
  map (map (fun a => match a with RNested vs => RNested (map denan vs) | RBase v => RBase v end)) cs.
From NP Require Import Dtype Names.
Definition target_eqb (a b : target) : bool :=
  match a, b with
  | TColumn x, TColumn y => str_eqb x y
  | TField n f, TField n' f' => str_eqb n n' && str_eqb f f'
  | TNewNest n f, TNewNest n' f' => str_eqb n n' && str_eqb f f'
  | TNewColumn x, TNewColumn y => str_eqb x y
  | TRaise, TRaise => true
  | _, _ => false
  end.
From NP Require Import Closure.
Definition kind_eqb (a b : kind) : bool := match a, b with KNested, KNested | KPlain, KPlain => true | _, _ => false end.
Definition tframe_eqb (a b : tframe) : bool :=
  kind_eqb (tk a) (tk b) && list_eqb (fun x y => str_eqb (fst x) (fst y) && tag_eqb (snd x) (snd y)) (tcols a) (tcols b).
(* a chain of real steps: (effect, observed typed result); the model must predict every observed typing and keep it closed *)
Fixpoint chk_chain (t : tframe) (steps : list (effect * tframe)) : bool :=
  match steps with
  | [] => true
  | (e, t') :: r => effect_ok t e && tframe_eqb (cstep true t e) t' && closed t' && chk_chain t' r
  end.
From NP Require Import Io.
Definition outcol_eqb (a b : outcol) : bool :=
  match a, b with
  | OFlat x, OFlat y => str_eqb x y
  | OStruct n f, OStruct n' f' => str_eqb n n' && list_eqb str_eqb f f'
  | _, _ => false
  end.
(* a real kernel's physical result: every chunk well-formed (zero chunks allowed: filter with nothing selected) *)
Definition wf_chunks_b (p : chunked) : bool :=
  negb (length (ctype p) =? 0) && forallb (fun c => wf_chunk_b (ctype p) c && same_offsets_b c && lists_valid_b c) (chunks p).

(* ---------- C05, frame level: one indexer moves whole rows (FrameRows.v) ---------- *)
From NP Require Import FrameRows.
Definition fcell_eqb (a b : fcell) : bool :=
  match a, b with
  | CVal x, CVal y => val_eqb x y
  | CRow x, CRow y => lrow_eqb x y
  | _, _ => false
  end.
Definition frow_eqb (a b : list (string * fcell)) : bool :=
  list_eqb (fun x y => String.eqb (fst x) (fst y) && fcell_eqb (snd x) (snd y)) a b.
Definition frame_len (F : fframe) : nat := match F with nc :: _ => col_len (snd nc) | [] => 0 end.
(* F: the frame before (physical read-back), pos: the input position of every output row, Out: the real result.
   A: the model's take gives the real result's rows; B: every result row is the whole input row; C: the result is a
   frame; S: the input is a frame of the stated length and every position is in range *)
Definition chk_frame_take (n : nat) (F : fframe) (pos : list nat) (Out : fframe) : list bool :=
  let T := f_take F pos in
  let js := seq 0 (length pos) in
  [ (frame_len Out =? length pos) && forallb (fun j => frow_eqb (frame_row T j) (frame_row Out j)) js;
    forallb (fun j => frow_eqb (frame_row Out j) (frame_row F (nth j pos 0))) js;
    frame_ok (length pos) Out && frame_ok n F;     (* both frames are read back from the library: ill-formed = a verdict *)
    forallb (fun i => i <? n) pos ].
Definition chk_frame_filter (n : nat) (F : fframe) (m : list bool) (Out : fframe) : list bool :=
  let T := f_filter F m in
  let js := seq 0 (count_true m) in
  [ (frame_len Out =? count_true m) && forallb (fun j => frow_eqb (frame_row T j) (frame_row Out j)) js;
    forallb (fun j => frow_eqb (frame_row Out j) (frame_row F (nth j (true_positions m) 0))) js;
    frame_ok (count_true m) Out && frame_ok n F;
    length m =? n ].

(* ---------- C10: the glue of reduce around the calls (Reduce2.v) ---------- *)
From NP Require Import Dtype Names Reduce2.
Definition split_eqb (a b : list str * list parg) : bool :=
  list_eqb str_eqb (fst a) (fst b) && list_eqb parg_eqb (snd a) (snd b).
(* known: the strings among the arguments that name a known column; obs_split: what the user function saw as
   (columns, extra arguments) (None: not observable, the frame has no rows); outs: the output names the function
   returned, in order; obs_cols: the columns of the result *)
Definition chk_reduce_glue (known : list str) (args : list parg) (obs_split : option (res (list str * list parg)))
                           (outs : list str) (obs_cols : option (list ocol)) : bool :=
  match obs_split with
  | Some o => res_eqb split_eqb (m_reduce_split (fun s => mem_str s known) args) o
  | None => true
  end &&
  match obs_cols with
  | Some oc => list_eqb ocol_eqb (m_infer_nesting outs) oc && list_eqb ocol_eqb (spec_infer_nesting outs) oc
  | None => true
  end.

(* ---------- C08: the content of a partially loaded nested column (Io2.v) ---------- *)
From NP Require Import Io2.
(* F: physical read-back of the FULL read of the file's nested column; sel: requested fields in request order;
   Pt: physical read-back of the partial load.  A: model = implementation, B: spec = implementation *)
Definition chk_partial_load (F : chunked) (sel : list string) (Pt : chunked) : list bool :=
  [ res_eqb lcol_eqb (res_map abs (m_partial_load F sel)) (Ok (abs Pt));
    lcol_eqb (spec_select_fields (abs F) sel) (abs Pt);
    wf_b Pt;
    wf_b F ].

(* ---------- C07: which layer a query belongs to (Preflight.v) ---------- *)
From NP Require Import Preflight.
Definition qroute_eqb (a b : qroute) : bool :=
  match a, b with QBase, QBase => true | QRefuse, QRefuse => true | QNest x, QNest y => x =? y | _, _ => false end.

(* ---------- C10: count_nested(by=...) (CountBy.v) ---------- *)
From NP Require Import CountBy.
(* obs: the count columns of the real result as (value heading the column, cells per row; None = NaN).  The column
   ORDER is by rendered name: compared per value. *)
Definition count_cells_eqb : list (option nat) -> list (option nat) -> bool := list_eqb (option_eqb Nat.eqb).
Definition chk_count_by (rows : list nrow) (k : nat) (obs : list (val * list (option nat))) : list bool :=
  let '(cats, cells) := m_count_by rows k in
  let col_of (j : nat) := map (fun r => nth j r None) cells in
  [ (length obs =? length cats) &&
    forallb (fun o => match find (fun jc => val_eqb (fst o) (snd jc)) (combine (seq 0 (length cats)) cats) with
                      | Some jc => count_cells_eqb (col_of (fst jc)) (snd o)
                      | None => false end) obs;
    forallb (fun o => count_cells_eqb (map (fun i => spec_count_cell rows k i (fst o)) (seq 0 (length rows))) (snd o)) obs;
    true; true ].

(* ---------- C12 / C11: the layer dropna and sort_values work on (Targets.v) ---------- *)
From NP Require Import Targets.
Definition res_layer_eqb (a b : res layer) : bool :=
  match a, b with Ok x, Ok y => layer_eqb x y | Err, Err => true | _, _ => false end.

(* ---------- C03 / C04 / C10: the per-row numpy view (NumpyView.v) ---------- *)
From NP Require Import NumpyView.
Definition nprow_eqb (a b : nprow) : bool :=
  option_eqb (fun x y => npdtype_eqb (fst x) (fst y) && vlist_eqb (snd x) (snd y)) a b.
Definition denan_nprow (r : nprow) : nprow := option_map (fun x => (fst x, map denan (snd x))) r.
(* impl: per row the dtype and the values as numpy shows them (NaN = null: a double array cannot tell) *)
Definition chk_iter_lists (P : chunked) (L : lcol) (nm : string) (impl : res (list nprow)) : list bool :=
  [ res_eqb (list_eqb nprow_eqb) (res_map (map denan_nprow) (m_iter_field_lists P nm)) impl;
    res_eqb (list_eqb nprow_eqb) (res_map (map denan_nprow) (spec_iter_field_lists L nm)) impl;
    wf_b P; lcol_eqb (abs P) L ].
Definition chk_iter_all (P : chunked) (L : lcol) (impls : list (string * res (list nprow))) : list bool :=
  fold_right (fun x acc => map2 andb (chk_iter_lists P L (fst x) (snd x)) acc) [true; true; true; true] impls.

(* ---------- C01 / C17: a cast between nested dtypes (Cast.v) ---------- *)
From NP Require Import Cast.
(* P: the source column; target: the dtype asked for; sp: what the specification says; impl: what astype returned *)
Definition chk_astype (P : chunked) (target : schema) (sp : res lcol) (impl : res lcol) : list bool :=
  [ res_eqb lcol_eqb (res_map abs (m_astype_nested P target)) impl;
    res_eqb lcol_eqb sp impl;
    true;
    wf_b P ].

(* ---------- C05 / C01: one offered table becomes a row by field NAME (Box.v) ---------- *)
From NP Require Export Box.
Definition chk_box (fields : list string) (t : table) (row : list (list val)) : bool :=
  res_eqb (list_eqb vlist_eqb) (m_box fields t) (Ok row).
