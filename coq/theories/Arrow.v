(* Arrow.v — the physical model: what the library's code can observe of a
   pyarrow.ChunkedArray of type struct<f1: list<T1>, ...> through pyarrow's accessors.
   Definitions only (so the model still evaluates when a proof breaks). *)
From Coq Require Import String List Arith Bool.
Import ListNotations.
From NP Require Import Base Values.

(* A ListArray as seen through .offsets / .is_valid() / .values :
   offs   = ListArray.offsets  : the window [o_0 .. o_n], NOT re-based to 0
   lvalid = validity of the n lists
   child  = ListArray.values   : the WHOLE child buffer, not only the window *)
Record larr := { offs : list nat; lvalid : list bool; child : list val }.

Record field := { fname : string; fty : ety; farr : larr }.

(* one StructArray chunk: svalid = validity of the rows; farr f = chunk.field(f), i.e. the
   field's list array restricted to the struct's window, parent validity NOT applied *)
Record schunk := { svalid : list bool; sfields : list field }.

(* a ChunkedArray keeps its type even with zero chunks *)
Record chunked := { ctype : schema; chunks : list schunk }.

Definition map2 {A B C} (f : A -> B -> C) (l1 : list A) (l2 : list B) : list C :=
  map (fun p => f (fst p) (snd p)) (combine l1 l2).

(* ---------- exactly modelled accessors of a ListArray ---------- *)

Definition la_len (l : larr) : nat := length (lvalid l).

(* python view: one (optional) list per row *)
Definition la_lists (l : larr) : list (option (list val)) :=
  map2 (fun c (v : bool) => if v then Some c else None) (cuts (offs l) (child l)) (lvalid l).

(* ListArray.flatten(): the child values of the window, skipping the ranges of null lists.
   Arrow takes the plain slice [o_0, o_n) when there is no null list. *)
Definition la_flatten (l : larr) : list val :=
  if forallb (fun b => b) (lvalid l)
  then slice (hd 0 (offs l)) (last (offs l) 0) (child l)
  else concat (map2 (fun c (v : bool) => if v then c else []) (cuts (offs l) (child l)) (lvalid l)).

(* pc.list_value_length: null for a null list *)
Definition la_value_lengths (l : larr) : list (option nat) :=
  map2 (fun d (v : bool) => if v then Some d else None) (diffs (offs l)) (lvalid l).

(* zero-copy row slice [a, b) *)
Definition la_slice (a b : nat) (l : larr) : larr :=
  {| offs := firstn (S (b - a)) (skipn a (offs l)); lvalid := slice a b (lvalid l); child := child l |}.

(* ListArray.from_arrays(offsets, values): every list valid *)
Definition la_from_arrays (o : list nat) (vs : list val) : larr :=
  {| offs := o; lvalid := repeat true (length o - 1); child := vs |}.

(* a fresh, compact ListArray holding the given python lists *)
Definition olist {A} (o : option (list A)) : list A := match o with Some l => l | None => [] end.
Definition la_of_lists (ls : list (option (list val))) : larr :=
  {| offs := cumsum_from 0 (map (fun o => length (olist o)) ls);
     lvalid := map (fun o => match o with Some _ => true | None => false end) ls;
     child := concat (map olist ls) |}.

(* ---------- exactly modelled accessors of a StructArray chunk ---------- *)

Definition sc_len (c : schunk) : nat := length (svalid c).
Definition sc_field (c : schunk) (name : string) : option field :=
  find (fun f => String.eqb (fname f) name) (sfields c).
Definition sc_schema (c : schunk) : schema := map (fun f => (fname f, fty f)) (sfields c).

(* StructArray.flatten(): parent validity ANDed into the children *)
Definition sc_flatten (c : schunk) : list field :=
  map (fun f => {| fname := fname f; fty := fty f;
                   farr := {| offs := offs (farr f);
                              lvalid := map2 andb (svalid c) (lvalid (farr f));
                              child := child (farr f) |} |}) (sfields c).

(* StructArray.from_arrays(arrays, names[, mask]): mask = True means null *)
Definition sc_from_arrays (fs : list field) (null_mask : option (list bool)) : schunk :=
  {| svalid := match null_mask with
               | Some m => map negb m
               | None => repeat true (match fs with f :: _ => la_len (farr f) | [] => 0 end)
               end;
     sfields := fs |}.

Definition sc_is_null (c : schunk) : list bool := map negb (svalid c).

Definition sc_slice (a b : nat) (c : schunk) : schunk :=
  {| svalid := slice a b (svalid c);
     sfields := map (fun f => {| fname := fname f; fty := fty f; farr := la_slice a b (farr f) |}) (sfields c) |}.

Definition ca_len (p : chunked) : nat := sum (map sc_len (chunks p)).
Definition ca_num_chunks (p : chunked) : nat := length (chunks p).
