(* Logical.v — the abstract specifications, on logical values only (no offsets, no chunks).
   These definitions are what the property sentences mean; written from the property text,
   not from the code.  No proofs here. *)
From Coq Require Import String List Arith Bool ZArith.
Import ListNotations.
From NP Require Import Base Values Arrow Abs.

(* row-major reading: one optional table per row; a table = per field the list of values *)
Definition lrow := option (list (list val)).
Definition lrows := list lrow.

Definition rows_of (L : lcol) : lrows :=
  map (fun i => if nth i (lvalidity L) false
                then Some (map (fun col => nth i col []) (lcols L)) else None)
      (seq 0 (lcol_nrows L)).

Definition row_present (r : lrow) : bool := match r with Some _ => true | None => false end.
Definition row_field (k : nat) (r : lrow) : list val :=
  match r with Some fs => nth k fs [] | None => [] end.
Definition row_len (r : lrow) : nat :=
  match r with Some (f :: _) => length f | _ => 0 end.

Definition lcol_of (sch : schema) (rs : lrows) : lcol :=
  {| lsch := sch; lvalidity := map row_present rs;
     lcols := map (fun k => map (row_field k) rs) (seq 0 (length sch)) |}.

Definition lrow_eqb : lrow -> lrow -> bool := option_eqb vll_eqb.
Definition lrows_eqb : lrows -> lrows -> bool := list_eqb lrow_eqb.

(* ---------- C03: the views, as functions of the logical column ---------- *)
Definition spec_len (L : lcol) : nat := lcol_nrows L.
Definition spec_isna (L : lcol) : list bool := map negb (lvalidity L).
Definition spec_list_lengths (L : lcol) : list nat := lrow_lengths L.
Definition spec_flat_length (L : lcol) : nat := sum (lrow_lengths L).
Definition spec_list_index (L : lcol) : list nat := flat_repeat (seq 0 (lcol_nrows L)) (lrow_lengths L).
Definition spec_offset_diffs (L : lcol) : list nat := lrow_lengths L.
Definition spec_flat (L : lcol) : list (list val) := map (@concat val) (lcols L).
Definition spec_field_names (L : lcol) : list string := map fst (lsch L).
Definition field_pos (sch : schema) (nm : string) : option nat :=
  (fix go (k : nat) (s : schema) : option nat :=
     match s with [] => None | nt :: t => if String.eqb (fst nt) nm then Some k else go (S k) t end) 0 sch.
Definition spec_flat_fields (L : lcol) (fields : list string) : list (list val) :=
  map (fun nm => match field_pos (lsch L) nm with Some k => concat (nth k (lcols L) []) | None => [] end) fields.
Definition spec_lists_fields (L : lcol) (fields : list string) : list (list (list val)) :=
  map (fun nm => match field_pos (lsch L) nm with Some k => nth k (lcols L) [] | None => [] end) fields.

(* ---------- C05: Python sequence semantics on a plain list of rows ---------- *)
Definition py_index (n : nat) (z : Z) : option nat :=
  let z' := if (z <? 0)%Z then (z + Z.of_nat n)%Z else z in
  if ((0 <=? z') && (z' <? Z.of_nat n))%Z then Some (Z.to_nat z') else None.

Definition spec_getitem_int (rs : lrows) (z : Z) : res lrow :=
  match py_index (length rs) z with Some i => Ok (nth i rs None) | None => Err end.

Definition spec_select (rs : lrows) (pos : list nat) : lrows := map (fun i => nth i rs None) pos.
Definition spec_mask (rs : lrows) (m : list bool) : lrows := mask_filter m rs.
Definition spec_dropna (rs : lrows) : lrows := filter row_present rs.

Definition py_indices (n : nat) (ix : list Z) : option (list nat) :=
  fold_right (fun z acc => match py_index n z, acc with
                           | Some i, Some t => Some (i :: t)
                           | _, _ => None end) (Some []) ix.

(* take with fill: -1 means "the fill row" *)
Definition spec_take_fill (rs : lrows) (ix : list Z) (fill : lrow) : lrows :=
  map (fun z => if (z <? 0)%Z then fill else nth (Z.to_nat z) rs None) ix.

(* list_update: rs[targets[j]] := vs[j], for distinct targets *)
Fixpoint list_set {A} (l : list A) (i : nat) (x : A) : list A :=
  match l, i with
  | [], _ => []
  | _ :: t, 0 => x :: t
  | y :: t, S k => y :: list_set t k x
  end.
Fixpoint list_update (rs : lrows) (targets : list nat) (vs : lrows) : lrows :=
  match targets, vs with
  | i :: ts, v :: vt => list_update (list_set rs i v) ts vt
  | _, _ => rs
  end.

(* ---------- C06: field edits with the frame condition built in ---------- *)
(* set field nm (type ty) to the given per-row lists: rows, validity and every other field
   are carried over unchanged; the edited field holds the supplied lists *)
Definition spec_set_field (L : lcol) (nm : string) (ty : ety) (newcol : list (list val)) : lcol :=
  let newcol := mask_rows (lvalidity L) newcol in
  match field_pos (lsch L) nm with
  | Some k => {| lsch := map (fun i => if i =? k then (nm, ty) else nth i (lsch L) (nm, ty)) (seq 0 (length (lsch L)));
                 lvalidity := lvalidity L;
                 lcols := map (fun i => if i =? k then newcol else nth i (lcols L) []) (seq 0 (length (lcols L))) |}
  | None => {| lsch := lsch L ++ [(nm, ty)]; lvalidity := lvalidity L; lcols := lcols L ++ [newcol] |}
  end.

Definition spec_select_fields (L : lcol) (fields : list string) : lcol :=
  {| lsch := flat_map (fun nm => match field_pos (lsch L) nm with Some k => [nth k (lsch L) (nm, TI64)] | None => [] end) fields;
     lvalidity := lvalidity L;
     lcols := flat_map (fun nm => match field_pos (lsch L) nm with Some k => [nth k (lcols L) []] | None => [] end) fields |}.

Definition spec_pop_fields (L : lcol) (fields : list string) : lcol :=
  spec_select_fields L (filter (fun nm => negb (existsb (String.eqb nm) fields)) (map fst (lsch L))).

(* flat values cut by the row lengths *)
Definition spec_cut_flat (L : lcol) (flat : list val) : list (list val) := cut_by (lrow_lengths L) flat.
Definition spec_fill (L : lcol) (vs : list val) : list (list val) := map2 (fun v n => repeat v n) vs (lrow_lengths L).
