(* Logical.v — the abstract specifications, on logical values only (no offsets, no chunks).
   These definitions are what the property sentences mean; written from the property text,
   not from the code.  No proofs here. *)
From Coq Require Import String List Arith Bool ZArith.
Import ListNotations.
From NP Require Import Base Values Arrow Abs.

(* row-major reading: one optional table per row; a table = per field the list of values *)
Definition lrow := option (list (list val)).
Definition lrows := list lrow.

Definition rows_of (L : lcol) : lrows :=
  map (fun i => if nth i (lvalidity L) false
                then Some (map (fun col => nth i col []) (lcols L)) else None)
      (seq 0 (lcol_nrows L)).

Definition row_present (r : lrow) : bool := match r with Some _ => true | None => false end.
Definition row_field (k : nat) (r : lrow) : list val :=
  match r with Some fs => nth k fs [] | None => [] end.
Definition row_len (r : lrow) : nat :=
  match r with Some (f :: _) => length f | _ => 0 end.

Definition lcol_of (sch : schema) (rs : lrows) : lcol :=
  {| lsch := sch; lvalidity := map row_present rs;
     lcols := map (fun k => map (row_field k) rs) (seq 0 (length sch)) |}.

Definition lrow_eqb : lrow -> lrow -> bool := option_eqb vll_eqb.
Definition lrows_eqb : lrows -> lrows -> bool := list_eqb lrow_eqb.

(* ---------- C03: the views, as functions of the logical column ---------- *)
Definition spec_len (L : lcol) : nat := lcol_nrows L.
Definition spec_isna (L : lcol) : list bool := map negb (lvalidity L).
Definition spec_list_lengths (L : lcol) : list nat := lrow_lengths L.
Definition spec_flat_length (L : lcol) : nat := sum (lrow_lengths L).
Definition spec_list_index (L : lcol) : list nat := flat_repeat (seq 0 (lcol_nrows L)) (lrow_lengths L).
Definition spec_offset_diffs (L : lcol) : list nat := lrow_lengths L.
Definition spec_flat (L : lcol) : list (list val) := map (@concat val) (lcols L).
Definition spec_field_names (L : lcol) : list string := map fst (lsch L).
Definition field_pos (sch : schema) (nm : string) : option nat :=
  (fix go (k : nat) (s : schema) : option nat :=
     match s with [] => None | nt :: t => if String.eqb (fst nt) nm then Some k else go (S k) t end) 0 sch.
Definition spec_flat_fields (L : lcol) (fields : list string) : list (list val) :=
  map (fun nm => match field_pos (lsch L) nm with Some k => concat (nth k (lcols L) []) | None => [] end) fields.
Definition spec_lists_fields (L : lcol) (fields : list string) : list (list (list val)) :=
  map (fun nm => match field_pos (lsch L) nm with Some k => nth k (lcols L) [] | None => [] end) fields.
(* the list view exactly: a missing row has NO list (null), a present row its list *)
Definition with_missing (v : list bool) (col : list (list val)) : list (option (list val)) :=
  map2 (fun (b : bool) l => if b then Some l else None) v col.
Definition spec_lists_opt_fields (L : lcol) (fields : list string) : list (list (option (list val))) :=
  map (with_missing (lvalidity L)) (spec_lists_fields L fields).

(* ---------- C05: Python sequence semantics on a plain list of rows ---------- *)
Definition py_index (n : nat) (z : Z) : option nat :=
  let z' := if (z <? 0)%Z then (z + Z.of_nat n)%Z else z in
  if ((0 <=? z') && (z' <? Z.of_nat n))%Z then Some (Z.to_nat z') else None.

(* CPython slice.indices(n) followed by range(): the selected positions *)
Definition py_slice_positions (start stop step : option Z) (n : nat) : res (list nat) :=
  let nz := Z.of_nat n in
  let st := match step with Some s => s | None => 1%Z end in
  if (st =? 0)%Z then Err else
  let lower := if (st <? 0)%Z then (-1)%Z else 0%Z in
  let upper := if (st <? 0)%Z then (nz - 1)%Z else nz in
  let clamp (o : option Z) (dflt : Z) :=
    match o with
    | None => dflt
    | Some v => if (v <? 0)%Z then Z.max (v + nz) lower else Z.min v upper
    end in
  let a := clamp start (if (st <? 0)%Z then upper else lower) in
  let b := clamp stop (if (st <? 0)%Z then lower else upper) in
  let cnt := if (st >? 0)%Z then Z.max 0 ((b - a + st - 1) / st)
             else Z.max 0 ((a - b - st - 1) / (- st)) in
  Ok (map (fun k => Z.to_nat (a + Z.of_nat k * st)) (seq 0 (Z.to_nat cnt))).


Definition spec_getitem_int (rs : lrows) (z : Z) : res lrow :=
  match py_index (length rs) z with Some i => Ok (nth i rs None) | None => Err end.

Definition spec_select (rs : lrows) (pos : list nat) : lrows := map (fun i => nth i rs None) pos.
Definition spec_mask (rs : lrows) (m : list bool) : lrows := mask_filter m rs.
Definition spec_dropna (rs : lrows) : lrows := filter row_present rs.

Definition py_indices (n : nat) (ix : list Z) : option (list nat) :=
  fold_right (fun z acc => match py_index n z, acc with
                           | Some i, Some t => Some (i :: t)
                           | _, _ => None end) (Some []) ix.

(* take with fill: -1 means "the fill row" *)
Definition spec_take_fill (rs : lrows) (ix : list Z) (fill : lrow) : lrows :=
  map (fun z => if (z <? 0)%Z then fill else nth (Z.to_nat z) rs None) ix.

(* list_update: rs[targets[j]] := vs[j], for distinct targets *)
Fixpoint list_set {A} (l : list A) (i : nat) (x : A) : list A :=
  match l, i with
  | [], _ => []
  | _ :: t, 0 => x :: t
  | y :: t, S k => y :: list_set t k x
  end.
Fixpoint list_update (rs : lrows) (targets : list nat) (vs : lrows) : lrows :=
  match targets, vs with
  | i :: ts, v :: vt => list_update (list_set rs i v) ts vt
  | _, _ => rs
  end.

(* ---------- C06: field edits with the frame condition built in ---------- *)
(* set field nm (type ty) to the given per-row lists: rows, validity and every other field
   are carried over unchanged; the edited field holds the supplied lists *)
Definition spec_set_field (L : lcol) (nm : string) (ty : ety) (newcol : list (list val)) : lcol :=
  let newcol := mask_rows (lvalidity L) newcol in
  match field_pos (lsch L) nm with
  | Some k => {| lsch := map (fun i => if i =? k then (nm, ty) else nth i (lsch L) (nm, ty)) (seq 0 (length (lsch L)));
                 lvalidity := lvalidity L;
                 lcols := map (fun i => if i =? k then newcol else nth i (lcols L) []) (seq 0 (length (lcols L))) |}
  | None => {| lsch := lsch L ++ [(nm, ty)]; lvalidity := lvalidity L; lcols := lcols L ++ [newcol] |}
  end.

Definition spec_select_fields (L : lcol) (fields : list string) : lcol :=
  {| lsch := flat_map (fun nm => match field_pos (lsch L) nm with Some k => [nth k (lsch L) (nm, TI64)] | None => [] end) fields;
     lvalidity := lvalidity L;
     lcols := flat_map (fun nm => match field_pos (lsch L) nm with Some k => [nth k (lcols L) []] | None => [] end) fields |}.

Definition spec_pop_fields (L : lcol) (fields : list string) : lcol :=
  spec_select_fields L (filter (fun nm => negb (existsb (String.eqb nm) fields)) (map fst (lsch L))).

(* flat values cut by the row lengths *)
Definition spec_cut_flat (L : lcol) (flat : list val) : list (list val) := cut_by (lrow_lengths L) flat.
Definition spec_fill (L : lcol) (vs : list val) : list (list val) := map2 (fun v n => repeat v n) vs (lrow_lengths L).

(* ---------- C05: the column-level specs, as results (Err where a Python list / numpy raises) ---------- *)
Definition on_rows (L : lcol) (f : lrows -> lrows) : lcol := lcol_of (lsch L) (f (rows_of L)).

Definition spec_col_getitem_int (L : lcol) (z : Z) : res lrow := spec_getitem_int (rows_of L) z.
Definition spec_col_slice (L : lcol) (a b s : option Z) : res lcol :=
  res_map (fun pos => on_rows L (fun rs => spec_select rs pos)) (py_slice_positions a b s (lcol_nrows L)).
Definition spec_col_mask (L : lcol) (m : list bool) : res lcol :=
  if length m =? lcol_nrows L then Ok (on_rows L (fun rs => spec_mask rs m)) else Err.
Definition spec_col_idx (L : lcol) (ix : list Z) : res lcol :=
  match py_indices (lcol_nrows L) ix with
  | Some pos => Ok (on_rows L (fun rs => spec_select rs pos))
  | None => Err
  end.
(* take: allow_fill=false -> negative positions count from the end; allow_fill=true -> -1 is the
   fill row (None = NA), anything below -1 is an error *)
Definition lrow_rect (r : lrow) : bool :=
  match r with None => true | Some fs => all_equal_nat (map (@length val) fs) end.
Definition spec_col_take (L : lcol) (ix : list Z) (allow_fill : bool) (fill : lrow) : res lcol :=
  let n := lcol_nrows L in
  if existsb (fun z => (Z.of_nat n <=? z)%Z) ix then Err else
  if allow_fill then
    if existsb (fun z => (z <? -1)%Z) ix then Err else
    if existsb (fun z => (z <? 0)%Z) ix && negb (lrow_rect fill) then Err else
    Ok (on_rows L (fun rs => spec_take_fill rs ix fill))
  else spec_col_idx L ix.
Definition spec_col_concat (Ls : list lcol) : res lcol :=
  match Ls with
  | [] => Err
  | L0 :: _ => Ok (lcol_of (lsch L0) (concat (map rows_of Ls)))
  end.
Definition spec_col_dropna (L : lcol) : lcol := on_rows L spec_dropna.

(* assignment: the target positions of a key, in the order a Python list / numpy consumes values *)
Inductive akey := AInt (z : Z) | ASlice (a b s : option Z) | AMask (m : list bool) | AIdx (ix : list Z).
Inductive aval := ARow (r : lrow) | ARows (rs : lrows).
Definition spec_targets (n : nat) (k : akey) : res (list nat) :=
  match k with
  | AInt z => match py_index n z with Some i => Ok [i] | None => Err end
  | ASlice a b s => py_slice_positions a b s n
  | AMask m => if length m =? n then Ok (true_positions m) else Err
  | AIdx ix => match py_indices n ix with Some pos => Ok pos | None => Err end
  end.
Definition spec_col_setitem (L : lcol) (k : akey) (v : aval) : res lcol :=
  match spec_targets (lcol_nrows L) k with
  | Err => Err
  | Ok ts =>
      match ts with
      | [] => Ok L                                        (* assigning to nothing does nothing *)
      | _ =>
        let vs := match v with ARow r => repeat r (length ts) | ARows rs => rs end in
        if negb (length vs =? length ts) then Err else
        if negb (forallb lrow_rect vs) then Err else
        if negb (forallb (fun r => match r with Some fs => length fs =? length (lsch L) | None => true end) vs) then Err else
        Ok (on_rows L (fun rs => list_update rs ts vs))
      end
  end.

(* ---------- C06: results with their error conditions ---------- *)
Definition names_of (L : lcol) : list string := map fst (lsch L).
Definition name_in (names : list string) (x : string) : bool := existsb (String.eqb x) names.
Fixpoint names_nodup (l : list string) : bool :=
  match l with [] => true | x :: t => negb (name_in t x) && names_nodup t end.

Definition spec_col_view_fields (L : lcol) (fields : list string) : res lcol :=
  if negb (names_nodup fields) then Err else
  if negb (forallb (name_in (names_of L)) fields) then Err else Ok (spec_select_fields L fields).

Definition spec_col_pop_fields (L : lcol) (fields : list string) : res lcol :=
  if negb (forallb (name_in (names_of L)) fields) then Err else
  if forallb (name_in fields) (names_of L) then Err else Ok (spec_pop_fields L fields).

Inductive fvalue := FVScalar (v : val) | FVFlat (vs : list val).

(* flat values: exactly flat_length of them, cut by the row lengths *)
Definition spec_col_set_flat (L : lcol) (nm : string) (ty : ety) (v : fvalue) (keep_dtype : bool) : res lcol :=
  if keep_dtype && negb (name_in (names_of L) nm) then Err else
  if keep_dtype && negb (match field_pos (lsch L) nm with Some k => ety_eqb (snd (nth k (lsch L) (nm, ty))) ty | None => false end) then Err else
  let flat := match v with FVScalar x => repeat x (sum (lrow_lengths L)) | FVFlat vs => vs end in
  if negb (length flat =? sum (lrow_lengths L)) then Err else
  Ok (spec_set_field L nm ty (spec_cut_flat L flat)).

(* per-row lists: one list per row with exactly that row's length (a missing row takes none) *)
Definition spec_col_set_lists (L : lcol) (nm : string) (ty : ety) (ls : list (list val)) (keep_dtype : bool) : res lcol :=
  if keep_dtype && negb (name_in (names_of L) nm) then Err else
  if keep_dtype && negb (match field_pos (lsch L) nm with Some k => ety_eqb (snd (nth k (lsch L) (nm, ty))) ty | None => false end) then Err else
  if negb (length ls =? lcol_nrows L) then Err else
  (* replacing the ONLY field: there is no other field to agree with, any lengths make a table *)
  let only := match lsch L with [nt] => String.eqb (fst nt) nm | _ => false end in
  if negb only && negb (list_eqb Nat.eqb (map (@length val) ls) (lrow_lengths L)) then Err else
  Ok (spec_set_field L nm ty ls).

Definition spec_col_fill (L : lcol) (nm : string) (ty : ety) (vs : list val) (keep_dtype : bool) : res lcol :=
  if keep_dtype && negb (name_in (names_of L) nm) then Err else
  if negb (length vs =? lcol_nrows L) then Err else
  Ok (spec_set_field L nm ty (spec_fill L vs)).
