(* Proofs_Targets.v — dropna and sort_values work on the one layer their arguments name, or refuse (C12, C11, C14). *)
From Coq Require Import List Arith Bool Lia.
Import ListNotations.
From NP Require Import Base Values Targets.

(* ---------------------------------------------------------------------------------------------------------------- *)
(* helpers *)

Lemma layer_eqb_spec a b : layer_eqb a b = true <-> a = b.
Proof.
  destruct a as [|x], b as [|y]; cbn [layer_eqb]; split; intro H; try congruence; try discriminate.
  - apply Nat.eqb_eq in H. congruence.
  - inversion H. apply Nat.eqb_refl.
Qed.

Lemma layer_eqb_refl a : layer_eqb a a = true.
Proof. apply layer_eqb_spec. reflexivity. Qed.

Lemma layer_eqb_neq a b : layer_eqb a b = false <-> a <> b.
Proof.
  split.
  - intros H E. apply layer_eqb_spec in E. congruence.
  - intro H. destruct (layer_eqb a b) eqn:E; [|reflexivity]. apply layer_eqb_spec in E. contradiction.
Qed.

Lemma layer_eq_dec (a b : layer) : {a = b} + {a <> b}.
Proof.
  destruct (layer_eqb a b) eqn:E.
  - left. apply layer_eqb_spec. exact E.
  - right. apply layer_eqb_neq. exact E.
Qed.

(* entries_layers: all entries known, or refused at an unknown entry *)
Lemma entries_layers_ok es ls : entries_layers es = Ok ls <-> es = map Some ls.
Proof.
  revert ls. induction es as [|[l|] t IH]; intros ls; cbn [entries_layers].
  - split; intro H.
    + inversion H. reflexivity.
    + destruct ls; [reflexivity|discriminate].
  - destruct (entries_layers t) as [r|] eqn:E.
    + split; intro H.
      * inversion H; subst. cbn [map]. f_equal. apply IH. reflexivity.
      * destruct ls as [|l' r']; [discriminate|]. cbn [map] in H. inversion H; subst.
        f_equal. f_equal. assert (Ok r = Ok r') as X by (apply IH; reflexivity). inversion X. reflexivity.
    + split; intro H; [discriminate|].
      destruct ls as [|l' r']; [discriminate|]. cbn [map] in H. inversion H; subst.
      assert (@Err (list layer) = Ok r') as X by (apply IH; reflexivity). discriminate.
  - split; intro H; [discriminate|]. destruct ls; discriminate.
Qed.

Lemma entries_layers_err es : entries_layers es = Err <-> In None es.
Proof.
  induction es as [|[l|] t IH]; cbn [entries_layers In].
  - split; [discriminate|tauto].
  - destruct (entries_layers t) as [r|] eqn:E.
    + split; [discriminate|]. intros [H|H]; [discriminate|]. apply IH in H. discriminate.
    + split; intro H; [right; apply IH; reflexivity|reflexivity].
  - split; intro H; [left|]; reflexivity.
Qed.

(* dedupe_layers keeps exactly the members *)
Lemma dedupe_layers_in y l : In y (dedupe_layers l) <-> In y l.
Proof.
  induction l as [|x t IH]; cbn [dedupe_layers In]; [tauto|].
  rewrite filter_In, IH. split.
  - intros [H|[H _]]; auto.
  - intros [H|H]; auto. destruct (layer_eq_dec x y) as [E|N]; auto.
    right. split; auto. apply layer_eqb_neq in N. rewrite N. reflexivity.
Qed.

(* the three shapes of a deduplicated list: empty, one layer, at least two different layers *)
Lemma dedupe_layers_cases l :
  (l = [] /\ dedupe_layers l = [])
  \/ (exists x, dedupe_layers l = [x] /\ l <> [] /\ forall y, In y l -> y = x)
  \/ (exists a b t, dedupe_layers l = a :: b :: t /\ In a l /\ In b l /\ a <> b).
Proof.
  destruct l as [|x t]; [left; split; reflexivity|right].
  cbn [dedupe_layers].
  destruct (filter (fun y => negb (layer_eqb x y)) (dedupe_layers t)) as [|b r] eqn:F.
  - left. exists x. split; [reflexivity|]. split; [discriminate|].
    intros y [H|H]; [auto|].
    destruct (layer_eq_dec x y) as [E|N]; [auto|]. exfalso.
    assert (In y (filter (fun y => negb (layer_eqb x y)) (dedupe_layers t))) as X.
    { apply filter_In. split; [apply dedupe_layers_in; exact H|].
      apply layer_eqb_neq in N. rewrite N. reflexivity. }
    rewrite F in X. exact X.
  - right. exists x, b, r. split; [reflexivity|].
    assert (In b (filter (fun y => negb (layer_eqb x y)) (dedupe_layers t))) as X by (rewrite F; left; reflexivity).
    apply filter_In in X. destruct X as [X1 X2]. apply (proj1 (dedupe_layers_in _ _)) in X1.
    split; [left; reflexivity|]. split; [right; exact X1|].
    apply negb_true_iff in X2. apply layer_eqb_neq in X2. exact X2.
Qed.

Lemma dedupe_layers_single l x : dedupe_layers l = [x] <-> (l <> [] /\ forall y, In y l -> y = x).
Proof.
  destruct (dedupe_layers_cases l) as [[E D]|[(x' & D & N & A)|(a & b & t & D & Ia & Ib & Nab)]].
  - rewrite D. split; [discriminate|]. intros [H _]. contradiction.
  - rewrite D. split.
    + intro H. inversion H; subst. split; assumption.
    + intros [_ H]. destruct l as [|z t]; [contradiction|].
      assert (z = x) by (apply H; left; reflexivity). assert (z = x') by (apply A; left; reflexivity). congruence.
  - rewrite D. split; [discriminate|]. intros [_ H]. exfalso. apply Nab.
    rewrite (H a Ia), (H b Ib). reflexivity.
Qed.

(* what the subset resolves to (the let-bound part of m_dropna_target) *)
Definition subset_st (subset : option (list sentry)) : res (option layer) :=
  match subset with
  | None | Some [] => Ok None
  | Some es => match entries_layers es with
               | Err => Err
               | Ok ls => match dedupe_layers ls with [l] => Ok (Some l) | _ => Err end
               end
  end.

Lemma m_dropna_target_unfold on sub :
  m_dropna_target on sub =
  match subset_st sub with
  | Err => Err
  | Ok st =>
      match on with
      | Some None => Err
      | Some (Some k) => match st with
                         | Some l => if layer_eqb l (LNest k) then Ok l else Err
                         | None => Ok (LNest k)
                         end
      | None => match st with Some l => Ok l | None => Ok LBase end
      end
  end.
Proof. reflexivity. Qed.

Lemma subset_st_cases sub :
  (subset_st sub = Ok None /\ (sub = None \/ sub = Some []))
  \/ (exists es l, sub = Some es /\ es <> [] /\ subset_st sub = Ok (Some l) /\ forall e, In e es -> e = Some l)
  \/ (exists es, sub = Some es /\ es <> [] /\ subset_st sub = Err /\
        (In None es \/ exists a b, In (Some a) es /\ In (Some b) es /\ a <> b)).
Proof.
  destruct sub as [[|e0 t]|]; [left; split; auto| |left; split; auto].
  right. remember (e0 :: t) as es eqn:Ees.
  assert (es <> []) as Hne by (subst; discriminate).
  assert (subset_st (Some es) = match entries_layers es with
               | Err => Err
               | Ok ls => match dedupe_layers ls with [l] => Ok (Some l) | _ => Err end
               end) as U by (subst; reflexivity).
  clear Ees e0 t.
  destruct (entries_layers es) as [ls|] eqn:E.
  - apply entries_layers_ok in E.
    destruct (dedupe_layers_cases ls) as [[El D]|[(x & D & N & A)|(a & b & r & D & Ia & Ib & Nab)]].
    + subst. cbn [map] in Hne. contradiction.
    + left. exists es, x. rewrite U, D. repeat split; auto.
      intros e He. subst es. apply in_map_iff in He. destruct He as (y & <- & Hy). f_equal. auto.
    + right. exists es. rewrite U, D. repeat split; auto.
      right. exists a, b. subst es. repeat split; auto using in_map.
  - right. exists es. rewrite U. repeat split; auto. left. apply entries_layers_err. exact E.
Qed.

(* ---------------------------------------------------------------------------------------------------------------- *)

(* 1. dropna: when it answers, every subset entry belongs to the answered layer, and so does on_nested when given *)
Theorem dropna_target_sound on sub l :
  m_dropna_target on sub = Ok l ->
  (forall es, sub = Some es -> forall e, In e es -> e = Some l) /\
  (forall k, on = Some (Some k) -> l = LNest k) /\
  on <> Some None /\
  ((on = None /\ (sub = None \/ sub = Some [])) -> l = LBase).
Proof.
  rewrite m_dropna_target_unfold.
  destruct (subset_st_cases sub) as [[S E]|[(es & l' & -> & Hne & S & A)|(es & -> & Hne & S & _)]]; rewrite S.
  - destruct on as [[k|]|]; intro H; try discriminate; inversion H; subst; clear H.
    + repeat split.
      * intros es Hs e He. destruct E as [E|E]; rewrite E in Hs; [discriminate|]. inversion Hs; subst. destruct He.
      * intros k' Hk. inversion Hk. reflexivity.
      * discriminate.
      * intros [Hon _]. discriminate.
    + repeat split.
      * intros es Hs e He. destruct E as [E|E]; rewrite E in Hs; [discriminate|]. inversion Hs; subst. destruct He.
      * intros k' Hk. discriminate.
      * discriminate.
  - destruct on as [[k|]|]; intro H; try discriminate.
    + destruct (layer_eqb l' (LNest k)) eqn:Q; [|discriminate]. inversion H; subst; clear H.
      apply layer_eqb_spec in Q. repeat split.
      * intros es' Hs e He. inversion Hs; subst. auto.
      * intros k' Hk. inversion Hk; subst. reflexivity.
      * discriminate.
      * intros [Hon _]. discriminate.
    + inversion H; subst; clear H. repeat split.
      * intros es' Hs e He. inversion Hs; subst. auto.
      * intros k' Hk. discriminate.
      * discriminate.
      * intros [_ [Hs|Hs]]; [discriminate|]. inversion Hs; subst. contradiction.
  - discriminate.
Qed.

(* 2. ... and it answers whenever the arguments name one layer consistently.
   True as stated.  The last premise is redundant (it follows from the one before it by case analysis on [on] and
   [sub]): see dropna_target_complete' below, which drops it. *)
Theorem dropna_target_complete' on sub l :
  on <> Some None ->
  (forall es, sub = Some es -> forall e, In e es -> e = Some l) ->
  (forall k, on = Some (Some k) -> l = LNest k) ->
  ((on = None /\ (sub = None \/ sub = Some [])) -> l = LBase) ->
  m_dropna_target on sub = Ok l.
Proof.
  intros Hon Hsub Hk Hbase.
  rewrite m_dropna_target_unfold.
  destruct (subset_st_cases sub) as [[S E]|[(es & l' & -> & Hne & S & A)|(es & -> & Hne & S & B)]]; rewrite S.
  - destruct on as [[k|]|].
    + rewrite (Hk k eq_refl). reflexivity.
    + contradiction.
    + rewrite Hbase; auto.
  - assert (l' = l) as ->.
    { destruct es as [|e t]; [contradiction|].
      assert (e = Some l') as X1 by (apply A; left; reflexivity).
      assert (e = Some l) as X2 by (apply (Hsub _ eq_refl); left; reflexivity). congruence. }
    destruct on as [[k|]|].
    + rewrite (Hk k eq_refl), layer_eqb_refl. reflexivity.
    + contradiction.
    + reflexivity.
  - exfalso. destruct B as [B|(a & b & Ia & Ib & Nab)].
    + apply (Hsub _ eq_refl) in B. discriminate.
    + apply (Hsub _ eq_refl) in Ia. apply (Hsub _ eq_refl) in Ib. congruence.
Qed.

Theorem dropna_target_complete on sub l :
  on <> Some None ->
  (forall es, sub = Some es -> forall e, In e es -> e = Some l) ->
  (forall k, on = Some (Some k) -> l = LNest k) ->
  ((on = None /\ (sub = None \/ sub = Some [])) -> l = LBase) ->
  (on <> None \/ (exists es, sub = Some es /\ es <> []) \/ l = LBase) ->
  m_dropna_target on sub = Ok l.
Proof. intros H1 H2 H3 H4 _. apply dropna_target_complete'; assumption. Qed.

(* the redundancy of the last premise, stated on its own *)
Lemma dropna_target_complete_last_premise (on : option (option nat)) (sub : option (list sentry)) (l : layer) :
  ((on = None /\ (sub = None \/ sub = Some [])) -> l = LBase) ->
  (on <> None \/ (exists es, sub = Some es /\ es <> []) \/ l = LBase).
Proof.
  intro H. destruct on as [o|]; [left; discriminate|]. right.
  destruct sub as [[|e t]|].
  - right. auto.
  - left. exists (e :: t). split; [reflexivity|discriminate].
  - right. auto.
Qed.

(* 3. refused: an entry of an unknown layer, entries of two layers, an unknown on_nested, or on_nested and subset that
      disagree *)
Theorem dropna_target_refused on sub :
  m_dropna_target on sub = Err <->
  ( on = Some None
    \/ (exists es, sub = Some es /\ In None es)
    \/ (exists es a b, sub = Some es /\ In (Some a) es /\ In (Some b) es /\ a <> b)
    \/ (exists es a k, sub = Some es /\ In (Some a) es /\ on = Some (Some k) /\ a <> LNest k) ).
Proof.
  rewrite m_dropna_target_unfold.
  destruct (subset_st_cases sub) as [[S E]|[(es & l' & -> & Hne & S & A)|(es & -> & Hne & S & B)]]; rewrite S.
  - split.
    + destruct on as [[k|]|]; intro H; try discriminate. left. reflexivity.
    + intros [H|[(es & Hs & I)|[(es & a & b & Hs & I & _)|(es & a & k & Hs & I & _)]]].
      * subst. reflexivity.
      * destruct E as [E|E]; rewrite E in Hs; [discriminate|]. inversion Hs; subst. destruct I.
      * destruct E as [E|E]; rewrite E in Hs; [discriminate|]. inversion Hs; subst. destruct I.
      * destruct E as [E|E]; rewrite E in Hs; [discriminate|]. inversion Hs; subst. destruct I.
  - assert (In (Some l') es) as Il.
    { destruct es as [|e t]; [contradiction|]. left. apply A. left. reflexivity. }
    split.
    + destruct on as [[k|]|]; intro H; try discriminate.
      * destruct (layer_eqb l' (LNest k)) eqn:Q; [discriminate|]. apply layer_eqb_neq in Q.
        right. right. right. exists es, l', k. auto.
      * left. reflexivity.
    + intros [H|[(es' & Hs & I)|[(es' & a & b & Hs & Ia & Ib & Nab)|(es' & a & k & Hs & I & Hon & N)]]].
      * subst. reflexivity.
      * inversion Hs; subst. apply A in I. discriminate.
      * inversion Hs; subst. apply A in Ia. apply A in Ib. congruence.
      * inversion Hs; subst. apply A in I. inversion I; subst.
        apply layer_eqb_neq in N. rewrite N. reflexivity.
  - split; [|reflexivity]. intros _. right.
    destruct B as [B|(a & b & Ia & Ib & Nab)].
    + left. exists es. auto.
    + right. left. exists es, a, b. auto.
Qed.

(* 4. sort_values: one layer or refused *)
Theorem sort_target_sound keys l : m_sort_target keys = Ok l -> keys <> [] /\ forall k, In k keys -> k = l.
Proof.
  unfold m_sort_target.
  destruct (dedupe_layers_cases keys) as [[E D]|[(x & D & N & A)|(a & b & t & D & _)]]; rewrite D; try discriminate.
  intro H. inversion H; subst. split; assumption.
Qed.

Theorem sort_target_refused keys : m_sort_target keys = Err <-> (keys = [] \/ exists a b, In a keys /\ In b keys /\ a <> b).
Proof.
  unfold m_sort_target.
  destruct (dedupe_layers_cases keys) as [[E D]|[(x & D & N & A)|(a & b & t & D & Ia & Ib & Nab)]]; rewrite D.
  - split; auto.
  - split; [discriminate|]. intros [H|(a & b & Ia & Ib & Nab)]; [contradiction|].
    exfalso. apply Nab. rewrite (A a Ia), (A b Ib). reflexivity.
  - split; [|reflexivity]. intros _. right. exists a, b. auto.
Qed.

Lemma nth_repeat_below (b d : bool) n j : j < n -> nth j (repeat b n) d = b.
Proof.
  revert j. induction n as [|n IH]; intros j Hj; [lia|].
  destruct j as [|j]; cbn [repeat nth]; [reflexivity|]. apply IH. lia.
Qed.

(* 5. the flags handed to pandas: the ordinal row number first and ascending, then the requested direction of every key *)
Theorem sort_ascending_spec a n :
  match a with AscList bs => length bs = n | AscBool _ => True end ->
  length (m_sort_ascending a n) = S n /\ hd false (m_sort_ascending a n) = true /\
  forall j, j < n -> nth (S j) (m_sort_ascending a n) false = match a with AscBool b => b | AscList bs => nth j bs false end.
Proof.
  destruct a as [b|bs]; cbn [m_sort_ascending length hd nth]; intro H.
  - rewrite repeat_length. repeat split.
    intros j Hj. apply nth_repeat_below. exact Hj.
  - rewrite H. repeat split.
Qed.

Print Assumptions dropna_target_sound.
Print Assumptions dropna_target_complete.
Print Assumptions dropna_target_complete'.
Print Assumptions dropna_target_refused.
Print Assumptions sort_target_sound.
Print Assumptions sort_target_refused.
Print Assumptions sort_ascending_spec.
