(* Proofs_Extras.v — C01: what the invariant means and what the validator refuses;
   C06: the frame condition built into the field-edit specification. *)
From Coq Require Import String List Arith Bool ZArith Lia.
Import ListNotations.
From NP Require Import Base Values Arrow Abs Kernels Logical ExtArray Codec Steps Proofs_Views Proofs_Codec Proofs_Norm.

(* ---------- C01 ---------- *)
(* what pyarrow itself guarantees of any struct<list...> array (schema, offsets monotone and within the
   child buffers) plus the property's domain (a present row holds a list, not a null, in every field) *)
Definition arrow_ok_b (p : chunked) : bool :=
  negb (length (ctype p) =? 0)
  && forallb (fun c => wf_chunk_b (ctype p) c && lists_valid_b c) (chunks p).

(* a column satisfying the invariant is rectangular: in every chunk every row has the same number of
   elements in every field (a missing row counting 0), and names and element types are the dtype's *)

(* per-row lengths of the masked python rows: the cut's length for a present row, 0 otherwise *)
Lemma lengths_masked_lists : forall (sv lv : list bool) (cs : list (list val)),
  forallb2 (fun (s l : bool) => implb s l) sv lv = true -> length cs = length sv ->
  map (@length val) (mask_rows sv (map (@olist val) (map2 (fun c (v : bool) => if v then Some c else None) cs lv)))
  = map2 (fun (s : bool) d => if s then d else 0) sv (map (@length val) cs).
Proof.
  induction sv as [|s sv IH]; intros [|l lv] [|c cs] H1 H2; cbn [forallb2 length] in *;
    try discriminate; try reflexivity.
  apply andb_true_iff in H1 as [H1a H1].
  rewrite map2_cons. cbn [map]. rewrite mask_rows_cons. cbn [map]. rewrite map2_cons. f_equal.
  - destruct s; [|reflexivity]. destruct l; [reflexivity|discriminate].
  - apply IH; [exact H1|lia].
Qed.

Lemma lengths_field_rows sv l :
  wf_larr_b (length sv) l = true ->
  forallb2 (fun (s v : bool) => implb s v) sv (lvalid l) = true ->
  map (@length val) (field_rows sv l) = map2 (fun (s : bool) d => if s then d else 0) sv (diffs (offs l)).
Proof.
  intros Hwf Hlv. apply wf_larr_b_spec in Hwf as (Ho & Hv & Hm & Hl).
  unfold field_rows, la_lists. rewrite lengths_masked_lists.
  - rewrite (lengths_cuts (offs l) (child l) Hm Hl). reflexivity.
  - exact Hlv.
  - rewrite length_cuts, Ho. lia.
Qed.

Lemma chunk_rect sch c :
  wf_chunk_b sch c = true -> same_offsets_b c = true -> lists_valid_b c = true -> rect_b c = true.
Proof.
  intros Hwf Hso Hlv. unfold rect_b, chunk_cols.
  destruct (sfields c) as [|f0 t] eqn:Ef; [reflexivity|]. cbn [map].
  apply forallb_forall. intros ci Hci. apply in_map_iff in Hci as (f & <- & Hf).
  assert (Hin0 : In f0 (sfields c)) by (rewrite Ef; left; reflexivity).
  assert (Hin : In f (sfields c)) by (rewrite Ef; right; exact Hf).
  pose proof (wf_chunk_field sch c f0 Hwf Hin0) as Hw0.
  pose proof (wf_chunk_field sch c f Hwf Hin) as Hw.
  unfold lists_valid_b in Hlv. rewrite forallb_forall in Hlv.
  rewrite (lengths_field_rows (svalid c) (farr f0) Hw0 (Hlv f0 Hin0)).
  rewrite (lengths_field_rows (svalid c) (farr f) Hw (Hlv f Hin)).
  apply wf_larr_b_spec in Hw0 as (_ & _ & Hm0 & _). apply wf_larr_b_spec in Hw as (_ & _ & Hm & _).
  rewrite <- (diffs_rebase _ Hm0), <- (diffs_rebase _ Hm).
  rewrite (same_offsets_spec c f0 t f Ef Hso Hin). apply list_eqb_nat_refl.
Qed.

Lemma wf_rect p : wf_b p = true -> forallb rect_b (chunks p) = true.
Proof.
  intros H. apply wf_b_spec in H as [_ H]. apply forallb_forall. intros c Hc.
  destruct (H c Hc) as (H1 & H2 & H3). exact (chunk_rect (ctype p) c H1 H2 H3).
Qed.
Lemma wf_schema p c : wf_b p = true -> In c (chunks p) -> sc_schema c = ctype p.
Proof.
  intros H Hc. apply wf_b_spec in H as [_ H]. destruct (H c Hc) as (H1 & _). apply chunk_schema, H1.
Qed.

(* the constructor with validation accepts only rectangular input ... *)

Lemma arrow_ok_validate_wf p : arrow_ok_b p = true -> m_validate p = true -> wf_b p = true.
Proof.
  unfold arrow_ok_b, m_validate, m_validate_chunk, wf_b. rewrite !andb_true_iff, !forallb_forall.
  intros [H1 H2] H3. split; [exact H1|]. intros c Hc. specialize (H2 c Hc). specialize (H3 c Hc).
  apply andb_true_iff in H2 as [H2 H4]. rewrite H2, H3, H4. reflexivity.
Qed.

Lemma empty_fields_schema (sch : schema) :
  map (fun f => (fname f, fty f))
      (map (fun nt : string * ety => {| fname := fst nt; fty := snd nt;
                                        farr := {| offs := [0]; lvalid := []; child := [] |} |}) sch) = sch.
Proof.
  rewrite map_map. cbn [fname fty]. induction sch as [|[n t] s IH]; [reflexivity|].
  cbn [map fst snd]. rewrite IH. reflexivity.
Qed.

(* what the constructor does first: a column of no chunk gets one empty chunk *)
Definition completed (p : chunked) : chunked :=
  match chunks p with
  | [] => {| ctype := ctype p;
             chunks := [ {| svalid := [];
                            sfields := map (fun nt => {| fname := fst nt; fty := snd nt;
                                                         farr := {| offs := [0]; lvalid := []; child := [] |} |})
                                           (ctype p) |} ] |}
  | _ => p
  end.

Lemma m_init_true_eq p :
  m_init p true = if m_validate (completed p) then Ok (m_drop_hidden (completed p)) else Err.
Proof. reflexivity. Qed.

Lemma completed_chunks p : chunks (completed p) <> [].
Proof. unfold completed. destruct (chunks p) eqn:E; cbn [chunks]; [discriminate|rewrite E; discriminate]. Qed.

Lemma completed_arrow_ok p : arrow_ok_b p = true -> arrow_ok_b (completed p) = true.
Proof.
  intros Hok. unfold completed. destruct (chunks p) as [|c0 cs] eqn:Ec; [|exact Hok].
  unfold arrow_ok_b in *. apply andb_true_iff in Hok as [Hne _]. cbn [ctype chunks forallb]. rewrite Hne. cbn [andb].
  rewrite andb_true_r.
  unfold wf_chunk_b, sc_schema, lists_valid_b. cbn [sfields svalid].
  rewrite empty_fields_schema, schema_eqb_refl.
  rewrite !forallb_map. cbn [farr lvalid andb].
  apply andb_true_iff. split; apply forallb_forall; intros; reflexivity.
Qed.

Lemma nth_map_const {A B} (d : B) : forall (l : list A) k, nth k (map (fun _ => d) l) d = d.
Proof. induction l as [|x l IH]; intros [|k]; cbn [map nth]; auto. Qed.

Lemma completed_abs p : abs (completed p) = abs p.
Proof.
  unfold completed. destruct (chunks p) as [|c0 cs] eqn:Ec; [|reflexivity].
  unfold abs. cbn [ctype chunks map concat]. rewrite Ec. cbn [map concat]. f_equal.
  apply map_ext. intros k. rewrite app_nil_r. unfold chunk_cols. cbn [sfields svalid]. rewrite map_map.
  apply (nth_map_const (@nil (list val)) (ctype p) k).
Qed.

(* (after the repair "a missing row holds nothing" the constructor ends with _drop_hidden_elements, which keeps
   well-formedness: Proofs_Norm.drop_hidden_sound) *)
Lemma init_sound p p' : arrow_ok_b p = true -> m_init p true = Ok p' -> wf_b p' = true.
Proof.
  intros Hok Hinit. rewrite m_init_true_eq in Hinit.
  destruct (m_validate (completed p)) eqn:Hv; [|discriminate]. inversion Hinit; subst p'.
  apply drop_hidden_sound.
  apply arrow_ok_validate_wf; [apply completed_arrow_ok, Hok|exact Hv].
Qed.

(* N3: the constructor establishes the layout part of the invariant by itself, for ANY accepted input, also one whose
   missing rows hide elements, without changing the logical column *)
Theorem init_normalises p q : arrow_ok_b p = true -> m_init p true = Ok q ->
  wf_b q = true /\ norm_missing_all_b q = true /\ abs q = abs p /\ chunks q <> [].
Proof.
  intros Hok Hinit. rewrite m_init_true_eq in Hinit.
  destruct (m_validate (completed p)) eqn:Hv; [|discriminate]. inversion Hinit; subst q.
  assert (Hwf : wf_b (completed p) = true)
    by (apply arrow_ok_validate_wf; [apply completed_arrow_ok, Hok|exact Hv]).
  destruct (drop_hidden_sound (completed p) Hwf) as (H1 & H2 & H3 & H4).
  repeat split; try assumption.
  - rewrite H3. apply completed_abs.
  - apply H4, completed_chunks.
Qed.

Corollary init_abs p q : arrow_ok_b p = true -> m_init p true = Ok q -> abs q = abs p /\ chunks q <> [].
Proof. intros Hok Hinit. destruct (init_normalises p q Hok Hinit) as (_ & _ & H3 & H4). auto. Qed.

(* with distinct field names: the whole invariant *)
Theorem init_inv p q : arrow_ok_b p = true -> nodupb (map fst (ctype p)) = true -> m_init p true = Ok q ->
  inv_b q = true.
Proof.
  intros Hok Hnd Hinit. rewrite m_init_true_eq in Hinit.
  destruct (m_validate (completed p)) eqn:Hv; [|discriminate]. inversion Hinit; subst q.
  apply drop_hidden_inv.
  - apply arrow_ok_validate_wf; [apply completed_arrow_ok, Hok|exact Hv].
  - apply completed_chunks.
  - unfold completed. destruct (chunks p); exact Hnd.
Qed.

Example init_normalises_hidden_valid :
  arrow_ok_b cx_hidden_valid = true /\ norm_missing_all_b cx_hidden_valid = false
  /\ exists q, m_init cx_hidden_valid true = Ok q /\ inv_b q = true /\ abs q = abs cx_hidden_valid.
Proof. split; [reflexivity|]. split; [reflexivity|]. eexists. repeat split; reflexivity. Qed.
Example init_normalises_hidden_mixed :
  arrow_ok_b cx_hidden_mixed = true /\ norm_missing_all_b cx_hidden_mixed = false
  /\ exists q, m_init cx_hidden_mixed true = Ok q /\ inv_b q = true /\ abs q = abs cx_hidden_mixed.
Proof. split; [reflexivity|]. split; [reflexivity|]. eexists. repeat split; reflexivity. Qed.

(* ... and refuses every ragged one *)
Lemma init_refuses_ragged p : arrow_ok_b p = true -> forallb rect_b (chunks p) = false -> m_init p true = Err.
Proof.
  intros Hok Hrag. unfold m_init. destruct (chunks p) as [|c0 cs] eqn:Ec; [discriminate|].
  destruct (m_validate p) eqn:Hv; [|reflexivity]. exfalso.
  pose proof (wf_rect p (arrow_ok_validate_wf p Hok Hv)) as Hr. rewrite Ec in Hr. congruence.
Qed.

(* ---------- C06: frame condition of spec_set_field ---------- *)

Lemma field_pos_go_bounds nm : forall (s : schema) k0 k,
  (fix go (k : nat) (s : schema) : option nat :=
     match s with [] => None | nt :: t => if String.eqb (fst nt) nm then Some k else go (S k) t end) k0 s
  = Some k -> k0 <= k < k0 + length s.
Proof.
  induction s as [|nt t IH]; intros k0 k H; [discriminate|].
  destruct (String.eqb (fst nt) nm).
  - inversion H; subst. simpl. lia.
  - apply IH in H. simpl. lia.
Qed.

Lemma field_pos_lt sch nm k : field_pos sch nm = Some k -> k < length sch.
Proof. unfold field_pos. intro H. apply field_pos_go_bounds in H. lia. Qed.

Lemma nth_map_seq0 {A} (f : nat -> A) n i d : i < n -> nth i (map f (seq 0 n)) d = f i.
Proof.
  intro H. rewrite (nth_indep _ d (f 0)) by (rewrite map_length, seq_length; exact H).
  rewrite (map_nth f (seq 0 n) 0 i), seq_nth by exact H. reflexivity.
Qed.

Lemma nth_error_map_seq0 {A} (f : nat -> A) n i : i < n -> nth_error (map f (seq 0 n)) i = Some (f i).
Proof.
  intro H. rewrite (nth_error_nth' _ (f 0)) by (rewrite map_length, seq_length; exact H).
  rewrite nth_map_seq0 by exact H. reflexivity.
Qed.

Lemma spec_set_field_validity L nm ty c : lvalidity (spec_set_field L nm ty c) = lvalidity L.
Proof. unfold spec_set_field. destruct (field_pos (lsch L) nm); reflexivity. Qed.

(* replacing field k: every other field (values and type) is untouched, same number of fields *)
Lemma spec_set_field_replace_others L nm ty c k k' :
  length (lsch L) = length (lcols L) ->
  field_pos (lsch L) nm = Some k -> k' <> k -> k' < length (lcols L) ->
  nth k' (lcols (spec_set_field L nm ty c)) [] = nth k' (lcols L) []
  /\ nth_error (lsch (spec_set_field L nm ty c)) k' = nth_error (lsch L) k'
  /\ length (lcols (spec_set_field L nm ty c)) = length (lcols L).
Proof.
  intros Hlen Hpos Hne Hlt. unfold spec_set_field. rewrite Hpos. cbn [lcols lsch].
  assert (Hf : (k' =? k) = false) by (apply Nat.eqb_neq; exact Hne).
  split; [|split].
  - rewrite nth_map_seq0 by exact Hlt. rewrite Hf. reflexivity.
  - rewrite nth_error_map_seq0 by (rewrite Hlen; exact Hlt). rewrite Hf.
    symmetry. apply nth_error_nth'. rewrite Hlen. exact Hlt.
  - rewrite map_length, seq_length. reflexivity.
Qed.
(* adding a new field: all old fields are untouched, the new one is appended *)
Lemma spec_set_field_add_others L nm ty c :
  field_pos (lsch L) nm = None ->
  lcols (spec_set_field L nm ty c) = lcols L ++ [mask_rows (lvalidity L) c]
  /\ lsch (spec_set_field L nm ty c) = lsch L ++ [(nm, ty)].
Proof. intros Hpos. unfold spec_set_field. rewrite Hpos. split; reflexivity. Qed.
(* the edited field holds the supplied per-row lists (nothing for a missing row) *)
Lemma spec_set_field_edited L nm ty c k :
  length (lsch L) = length (lcols L) ->
  field_pos (lsch L) nm = Some k ->
  nth k (lcols (spec_set_field L nm ty c)) [] = mask_rows (lvalidity L) c
  /\ nth_error (lsch (spec_set_field L nm ty c)) k = Some (nm, ty).
Proof.
  intros Hlen Hpos. pose proof (field_pos_lt _ _ _ Hpos) as Hk.
  unfold spec_set_field. rewrite Hpos. cbn [lcols lsch]. split.
  - rewrite nth_map_seq0 by (rewrite <- Hlen; exact Hk). rewrite Nat.eqb_refl. reflexivity.
  - rewrite nth_error_map_seq0 by exact Hk. rewrite Nat.eqb_refl. reflexivity.
Qed.
(* flat values are stored in flat order: cutting by the row lengths and concatenating gives them back,
   and the per-row lengths are the column's *)
Lemma spec_cut_flat_roundtrip L flat : length flat = sum (lrow_lengths L) ->
  concat (spec_cut_flat L flat) = flat /\ map (@length val) (spec_cut_flat L flat) = lrow_lengths L.
Proof.
  intros H. unfold spec_cut_flat. split.
  - apply concat_cut_by. symmetry. exact H.
  - apply lengths_cut_by. symmetry. exact H.
Qed.
Lemma masked_lengths_same : forall (v : list bool) (c col0 : list (list val)),
  map (@length val) c = map (@length val) col0 ->
  forallb2 (fun (b : bool) (l : list val) => b || (length l =? 0)) v col0 = true ->
  map (@length val) (mask_rows v c) = map (@length val) col0.
Proof.
  induction v as [|b v IH]; intros [|x c] [|y col0] Hc Hn; cbn [forallb2 map] in *;
    try discriminate; try reflexivity.
  apply andb_true_iff in Hn as [Hb Hn]. injection Hc as Hxy Hc'.
  rewrite mask_rows_cons. cbn [map]. f_equal.
  - destruct b; [exact Hxy|]. simpl in Hb. apply Nat.eqb_eq in Hb. rewrite Hb. reflexivity.
  - apply IH; assumption.
Qed.

(* per-row lengths of the edited column are unchanged when the supplied lists have the column's lengths *)
Lemma spec_set_field_lengths L nm ty c :
  lcol_wf_b L = true -> lcols L <> [] -> map (@length val) c = lrow_lengths L ->
  lrow_lengths (spec_set_field L nm ty c) = lrow_lengths L.
Proof.
  intros Hwf Hne Hc. unfold spec_set_field.
  destruct (field_pos (lsch L) nm) as [k|] eqn:Hpos.
  - destruct (lcols L) as [|col0 rest] eqn:El; [congruence|].
    unfold lrow_lengths at 1. cbn [lcols length seq map]. destruct k as [|k]; cbn [Nat.eqb nth].
    + (* the first field is the edited one *)
      unfold lrow_lengths in *. rewrite El in *.
      unfold lcol_wf_b in Hwf. rewrite El in Hwf. rewrite !andb_true_iff in Hwf.
      destruct Hwf as [[[_ Hl] _] Hn]. cbn [forallb] in Hl, Hn.
      apply andb_true_iff in Hl as [Hl _]. apply andb_true_iff in Hn as [Hn _]. apply Nat.eqb_eq in Hl.
      apply (masked_lengths_same (lvalidity L) c col0); assumption.
    + unfold lrow_lengths. rewrite El. reflexivity.
  - unfold lrow_lengths. cbn [lcols]. destruct (lcols L) as [|col0 rest]; [congruence|]. reflexivity.
Qed.

Print Assumptions wf_rect.
Print Assumptions wf_schema.
Print Assumptions init_sound.
Print Assumptions init_abs.
Print Assumptions init_normalises.
Print Assumptions init_inv.
Print Assumptions init_refuses_ragged.
Print Assumptions spec_set_field_validity.
Print Assumptions spec_set_field_replace_others.
Print Assumptions spec_set_field_add_others.
Print Assumptions spec_set_field_edited.
Print Assumptions spec_cut_flat_roundtrip.
Print Assumptions spec_set_field_lengths.
