(* Values.v — inner values, element types, labels, result/error carrier. No proofs here
   except decidability of the equalities used by the boolean checkers. *)
From Coq Require Import String ZArith List Bool.
Import ListNotations.
From NP Require Import Base.

(* An inner value as the library can observe it.  VTok is an opaque token: the harness maps
   every non-integer inner value (double by its IEEE bit pattern, all NaNs to one token,
   string, timestamp) to a stable integer token; no model function inspects a token except
   for equality, null-ness and a supplied rank (sorting). *)
Inductive val := VNull | VInt (z : Z) | VBool (b : bool) | VTok (k : Z).
Arguments VInt z%Z.
Arguments VTok k%Z.

Definition val_eqb (a b : val) : bool :=
  match a, b with
  | VNull, VNull => true
  | VInt x, VInt y => Z.eqb x y
  | VBool x, VBool y => Bool.eqb x y
  | VTok x, VTok y => Z.eqb x y
  | _, _ => false
  end.

Lemma val_eqb_spec a b : val_eqb a b = true <-> a = b.
Proof.
  destruct a, b; simpl; split; intro H; try congruence; try discriminate.
  - apply Z.eqb_eq in H. congruence.
  - inversion H. apply Z.eqb_refl.
  - apply Bool.eqb_prop in H. congruence.
  - inversion H. apply Bool.eqb_reflx.
  - apply Z.eqb_eq in H. congruence.
  - inversion H. apply Z.eqb_refl.
Qed.

Definition is_null (v : val) : bool := match v with VNull => true | _ => false end.

(* element types of the list fields *)
Inductive ety := TI64 | TF64 | TStr | TBool | TTs | TOther (k : nat).

Definition ety_eqb (a b : ety) : bool :=
  match a, b with
  | TI64, TI64 | TF64, TF64 | TStr, TStr | TBool, TBool | TTs, TTs => true
  | TOther x, TOther y => Nat.eqb x y
  | _, _ => false
  end.

Lemma ety_eqb_spec a b : ety_eqb a b = true <-> a = b.
Proof.
  destruct a, b; simpl; split; intro H; try congruence; try discriminate.
  - apply Nat.eqb_eq in H. congruence.
  - inversion H. apply Nat.eqb_refl.
Qed.

Definition schema := list (string * ety).

Definition sfield_eqb (a b : string * ety) : bool :=
  String.eqb (fst a) (fst b) && ety_eqb (snd a) (snd b).

Lemma sfield_eqb_spec a b : sfield_eqb a b = true <-> a = b.
Proof.
  destruct a as [n t], b as [n' t']; unfold sfield_eqb; simpl.
  rewrite andb_true_iff, String.eqb_eq, ety_eqb_spec. split; [intros [-> ->]; reflexivity|intro H; inversion H; auto].
Qed.

Definition schema_eqb : schema -> schema -> bool := list_eqb sfield_eqb.

(* index labels *)
Inductive label := LInt (z : Z) | LStr (s : list nat).
Arguments LInt z%Z.

Definition label_eqb (a b : label) : bool :=
  match a, b with
  | LInt x, LInt y => Z.eqb x y
  | LStr x, LStr y => list_eqb Nat.eqb x y
  | _, _ => false
  end.

(* result carrier for operations that may raise *)
Inductive res (A : Type) := Ok (a : A) | Err.
Arguments Ok {A} a.
Arguments Err {A}.

Definition res_bind {A B} (r : res A) (f : A -> res B) : res B :=
  match r with Ok a => f a | Err => Err end.
Definition res_map {A B} (f : A -> B) (r : res A) : res B :=
  match r with Ok a => Ok (f a) | Err => Err end.
Definition is_ok {A} (r : res A) : bool := match r with Ok _ => true | Err => false end.

Definition res_eqb {A} (eqb : A -> A -> bool) (a b : res A) : bool :=
  match a, b with
  | Ok x, Ok y => eqb x y
  | Err, Err => true
  | _, _ => false
  end.

Definition vlist_eqb : list val -> list val -> bool := list_eqb val_eqb.
Definition vll_eqb : list (list val) -> list (list val) -> bool := list_eqb vlist_eqb.

Lemma vlist_eqb_spec a b : vlist_eqb a b = true <-> a = b.
Proof. apply list_eqb_spec, val_eqb_spec. Qed.
Lemma vll_eqb_spec a b : vll_eqb a b = true <-> a = b.
Proof. apply list_eqb_spec, vlist_eqb_spec. Qed.

(* the token the harness uses for every NaN; boxing a row into a pandas DataFrame cannot
   tell NaN from null in numeric columns, so the element view is compared modulo denan *)
Definition NAN_TOKEN : Z := 73786976294838206464%Z.  (* 2^66 *)
Definition denan (v : val) : val :=
  match v with VTok k => if Z.eqb k NAN_TOKEN then VNull else v | _ => v end.
