(* Proofs_Io2.v — a partial load of a nested column holds exactly the requested fields of the full column (C08):
   same rows, same missing rows, same lists, in the order of the request. *)
From Coq Require Import String List Arith Bool Lia ZArith.
Import ListNotations.
From NP Require Import Base Values Arrow Abs Kernels Logical ExtArray Codec Steps Io2
  Proofs_Views Proofs_Codec Proofs_Fields.

Local Open Scope nat_scope.

(* ================= generic list facts ================= *)

Lemma find_map {A B} (P : B -> bool) (g : A -> B) : forall l,
  find P (map g l) = option_map g (find (fun x => P (g x)) l).
Proof.
  induction l as [|x t IH]; [reflexivity|]. cbn [map find].
  destruct (P (g x)); [reflexivity|exact IH].
Qed.

Lemma forallb_map_ext {A B} (P : B -> bool) (Q : A -> bool) (g : A -> B) : forall l,
  (forall x, In x l -> P (g x) = Q x) -> forallb P (map g l) = forallb Q l.
Proof.
  induction l as [|x t IH]; intro H; [reflexivity|]. cbn [map forallb].
  rewrite (H x) by (left; reflexivity). rewrite IH; [reflexivity|].
  intros y Hy. apply H. right. exact Hy.
Qed.

Lemma map2_andb_implb : forall (sv lv : list bool),
  forallb2 (fun s l : bool => implb s l) sv lv = true -> map2 andb sv lv = sv.
Proof.
  induction sv as [|s sv IH]; intros [|l lv] H; cbn [forallb2] in H; try discriminate; [reflexivity|].
  apply andb_true_iff in H as [H1 H2]. rewrite map2_cons, (IH lv H2). f_equal.
  destruct s, l; try reflexivity; discriminate.
Qed.

Lemma forallb2_implb_refl : forall sv : list bool, forallb2 (fun s l : bool => implb s l) sv sv = true.
Proof. induction sv as [|s sv IH]; [reflexivity|]. cbn [forallb2]. rewrite IH. destruct s; reflexivity. Qed.

Lemma map2_andb_idem : forall (acc x : list bool), map2 andb (map2 andb acc x) x = map2 andb acc x.
Proof.
  induction acc as [|a acc IH]; intros [|b x]; try reflexivity.
  rewrite !map2_cons, IH. f_equal. destruct a, b; reflexivity.
Qed.

Lemma map2_andb_repeat_true : forall (x : list bool), map2 andb (repeat true (length x)) x = x.
Proof. induction x as [|b x IH]; [reflexivity|]. cbn [length repeat]. rewrite map2_cons, IH. reflexivity. Qed.

Lemma res_all_map_ok {A B} (f : A -> res B) (g : A -> B) : forall l,
  (forall x, In x l -> f x = Ok (g x)) -> res_all (map f l) = Ok (map g l).
Proof.
  induction l as [|x t IH]; intro H; [reflexivity|]. cbn [map res_all].
  rewrite (H x) by (left; reflexivity). rewrite IH; [reflexivity|].
  intros y Hy. apply H. right. exact Hy.
Qed.

Lemma res_all_hd_err {A} (r : res A) t : r = Err -> res_all (r :: t) = Err.
Proof. intros ->. reflexivity. Qed.

(* ================= what a leaf is: the field with the parent validity ANDed in ================= *)

Definition flat1 (sv : list bool) (f : field) : field :=
  {| fname := fname f; fty := fty f;
     farr := {| offs := offs (farr f); lvalid := map2 andb sv (lvalid (farr f)); child := child (farr f) |} |}.

(* the same field with its list validity replaced by the row validity *)
Definition setlv (sv : list bool) (f : field) : field :=
  {| fname := fname f; fty := fty f;
     farr := {| offs := offs (farr f); lvalid := sv; child := child (farr f) |} |}.

Definition norm_chunk (c : schunk) : schunk :=
  {| svalid := svalid c; sfields := map (setlv (svalid c)) (sfields c) |}.

Definition norm_col (q : chunked) : chunked := {| ctype := ctype q; chunks := map norm_chunk (chunks q) |}.

Lemma sc_flatten_flat1 c : sc_flatten c = map (flat1 (svalid c)) (sfields c).
Proof. reflexivity. Qed.

Lemma leaf_of_eq c nm : leaf_of c nm = option_map (flat1 (svalid c)) (sc_field c nm).
Proof. unfold leaf_of, sc_field. rewrite sc_flatten_flat1, find_map. reflexivity. Qed.

Lemma flat1_setlv sv f : forallb2 (fun s l : bool => implb s l) sv (lvalid (farr f)) = true ->
  flat1 sv f = setlv sv f.
Proof. intro H. unfold flat1, setlv. rewrite (map2_andb_implb _ _ H). reflexivity. Qed.

(* a requested name is a field of the chunk iff it is a name of the schema *)
Lemma has_name_sc_field sch c nm : wf_chunk_b sch c = true ->
  has_name (map fst sch) nm = match sc_field c nm with Some _ => true | None => false end.
Proof.
  intro Hwf. rewrite <- (chunk_schema _ _ Hwf). unfold sc_schema. rewrite map_map.
  replace (map (fun x : field => fst (fname x, fty x)) (sfields c)) with (map fname (sfields c))
    by (apply map_ext; reflexivity).
  unfold has_name. rewrite (fpos_has fname nm (sfields c)).
  unfold sc_field. rewrite find_fpos.
  destruct (fpos fname nm (sfields c)) as [k|] eqn:E; [|reflexivity].
  destruct (fpos_some fname nm (sfields c) k E) as (x & Hx & _). rewrite Hx. reflexivity.
Qed.

Definition sel_fields (c : schunk) (sel : list string) : list field :=
  flat_map (fun nm => match sc_field c nm with Some f => [f] | None => [] end) sel.

Lemma sel_fields_incl c sel : incl (sel_fields c sel) (sfields c).
Proof.
  intros f Hf. unfold sel_fields in Hf. apply in_flat_map in Hf as (nm & _ & Hf).
  destruct (sc_field c nm) as [g|] eqn:E; [|destruct Hf]. destruct Hf as [<-|[]].
  unfold sc_field in E. apply find_some in E. tauto.
Qed.

Lemma all_some_leaves c : forall sel, (forall nm, In nm sel -> sc_field c nm <> None) ->
  all_some (map (leaf_of c) sel) = Some (map (flat1 (svalid c)) (sel_fields c sel)).
Proof.
  induction sel as [|nm t IH]; intro H; [reflexivity|].
  unfold sel_fields in *. cbn [map all_some flat_map]. rewrite leaf_of_eq.
  destruct (sc_field c nm) as [f|] eqn:E; [|exfalso; apply (H nm); [left; reflexivity|exact E]].
  cbn [option_map]. rewrite IH by (intros x Hx; apply H; right; exact Hx). reflexivity.
Qed.

Lemma all_some_none c : forall sel nm, In nm sel -> sc_field c nm = None ->
  all_some (map (leaf_of c) sel) = None.
Proof.
  induction sel as [|x t IH]; intros nm Hin E; [destruct Hin|].
  cbn [map all_some]. destruct (leaf_of c x) as [g|] eqn:El.
  - destruct Hin as [->|Hin].
    + rewrite leaf_of_eq, E in El. discriminate.
    + rewrite (IH nm Hin E). reflexivity.
  - reflexivity.
Qed.

(* ================= the mask: every selected leaf null = the row is missing ================= *)

Lemma fold_mask_same (x : list bool) : forall (leaves : list field) (acc : list bool),
  (forall f, In f leaves -> lvalid (farr f) = x) ->
  fold_left (fun acc f => map2 andb acc (map negb (lvalid (farr f)))) leaves (map2 andb acc (map negb x))
  = map2 andb acc (map negb x).
Proof.
  induction leaves as [|f t IH]; intros acc H; [reflexivity|]. cbn [fold_left].
  rewrite (H f) by (left; reflexivity). rewrite map2_andb_idem. apply IH.
  intros g Hg. apply H. right. exact Hg.
Qed.

Lemma all_null_mask_same sv f0 t : (forall f, In f (f0 :: t) -> lvalid (farr f) = sv) ->
  all_null_mask (length sv) (f0 :: t) = map negb sv.
Proof.
  intro H. unfold all_null_mask. cbn [fold_left]. rewrite (H f0) by (left; reflexivity).
  rewrite fold_mask_same by (intros g Hg; apply H; right; exact Hg).
  rewrite <- (map_length negb sv). apply map2_andb_repeat_true.
Qed.

(* ================= one chunk ================= *)

Lemma partial_chunk_eq sch c sel : chunk_ok sch c -> sel <> [] ->
  forallb (has_name (map fst sch)) sel = true ->
  m_partial_chunk c sel = Ok (norm_chunk (sc_from_arrays (sel_fields c sel) (Some (sc_is_null c)))).
Proof.
  intros Hok Hne Hall. pose proof Hok as (Hwf & _ & Hlv & _).
  rewrite forallb_forall in Hall.
  assert (Hfound : forall nm, In nm sel -> sc_field c nm <> None).
  { intros nm Hin E. specialize (Hall nm Hin). rewrite (has_name_sc_field sch c nm Hwf), E in Hall. discriminate. }
  unfold m_partial_chunk. rewrite (all_some_leaves c sel Hfound).
  assert (Hmap : map (flat1 (svalid c)) (sel_fields c sel) = map (setlv (svalid c)) (sel_fields c sel)).
  { apply map_ext_in. intros f Hf. apply flat1_setlv. unfold lists_valid_b in Hlv. rewrite forallb_forall in Hlv.
    apply Hlv. apply (sel_fields_incl c sel). exact Hf. }
  rewrite Hmap. rewrite sc_from_arrays_null. unfold norm_chunk. cbn [svalid sfields].
  destruct (sel_fields c sel) as [|f0 t] eqn:Ef.
  - exfalso. destruct sel as [|nm r]; [congruence|].
    unfold sel_fields in Ef. cbn [flat_map] in Ef.
    destruct (sc_field c nm) as [g|] eqn:E; [discriminate|]. apply (Hfound nm); [left; reflexivity|exact E].
  - cbn [map]. unfold sc_from_arrays. f_equal. f_equal.
    unfold sc_len. change (setlv (svalid c) f0 :: map (setlv (svalid c)) t) with (map (setlv (svalid c)) (f0 :: t)).
    cbn [map]. rewrite all_null_mask_same.
    + apply map_negb_negb.
    + intros f Hf. change (setlv (svalid c) f0 :: map (setlv (svalid c)) t) with (map (setlv (svalid c)) (f0 :: t)) in Hf.
      apply in_map_iff in Hf as (g & <- & _). reflexivity.
Qed.

(* ================= the whole column ================= *)

Lemma partial_load_eq p sel : inv_b p = true -> sel <> [] -> nodupb sel = true ->
  forallb (has_name (map fst (ctype p))) sel = true ->
  m_partial_load p sel = Ok (norm_col (view_result p sel)).
Proof.
  intros Hinv Hne Hnd Hall. destruct (inv_b_parts p Hinv) as (_ & _ & _ & _ & (_ & Hcs)).
  unfold m_partial_load. rewrite Hnd. cbn [negb].
  rewrite (res_all_map_ok (fun c => m_partial_chunk c sel)
             (fun c => norm_chunk (sc_from_arrays (sel_fields c sel) (Some (sc_is_null c))))).
  - unfold norm_col, view_result. cbn [ctype chunks]. rewrite map_map. reflexivity.
  - intros c Hc. rewrite Forall_forall in Hcs. apply (partial_chunk_eq (ctype p)); [apply Hcs, Hc|exact Hne|exact Hall].
Qed.

(* normalising the list validity to the row validity changes nothing logically ... *)

Lemma mask_rows_lv_irrel : forall (sv lv : list bool) (cs : list (list val)),
  forallb2 (fun s l : bool => implb s l) sv lv = true ->
  mask_rows sv (map (@olist val) (map2 (fun c (v : bool) => if v then Some c else None) cs sv))
  = mask_rows sv (map (@olist val) (map2 (fun c (v : bool) => if v then Some c else None) cs lv)).
Proof.
  induction sv as [|s sv IH]; intros [|l lv] [|c cs] H; cbn [forallb2] in H; try discriminate; try reflexivity.
  apply andb_true_iff in H as [H1 H2]. rewrite !map2_cons. cbn [map]. unfold mask_rows in *.
  rewrite !map2_cons. f_equal; [|apply IH; exact H2].
  destruct s, l; try reflexivity; discriminate.
Qed.

Lemma field_rows_setlv sv f : forallb2 (fun s l : bool => implb s l) sv (lvalid (farr f)) = true ->
  field_rows sv (farr (setlv sv f)) = field_rows sv (farr f).
Proof.
  intro H. unfold field_rows, la_lists, setlv. cbn [farr offs lvalid child]. apply mask_rows_lv_irrel, H.
Qed.

Lemma chunk_cols_norm c : lists_valid_b c = true -> chunk_cols (norm_chunk c) = chunk_cols c.
Proof.
  intro Hlv. unfold chunk_cols, norm_chunk. cbn [svalid sfields]. rewrite map_map.
  apply map_ext_in. intros f Hf. apply field_rows_setlv.
  unfold lists_valid_b in Hlv. rewrite forallb_forall in Hlv. apply Hlv, Hf.
Qed.

Lemma abs_norm_col q : col_ok q -> abs (norm_col q) = abs q.
Proof.
  intros (_ & Hcs). unfold abs, norm_col. cbn [ctype chunks]. f_equal.
  - rewrite map_map. reflexivity.
  - apply map_ext. intro k. f_equal. rewrite map_map. apply map_ext_in. intros c Hc.
    rewrite Forall_forall in Hcs. destruct (Hcs c Hc) as (_ & _ & Hlv & _).
    rewrite (chunk_cols_norm c Hlv). reflexivity.
Qed.

(* ... and keeps the invariant *)

Lemma wf_larr_setlv n sv f : wf_larr_b n (farr f) = true -> length sv = n ->
  wf_larr_b n (farr (setlv sv f)) = true.
Proof.
  unfold wf_larr_b, setlv. cbn [farr offs lvalid child]. intros H Hn.
  apply andb_true_iff in H as [H H4]. apply andb_true_iff in H as [H H3]. apply andb_true_iff in H as [H1 _].
  rewrite H1, H3, H4. apply Nat.eqb_eq in Hn. rewrite Hn. reflexivity.
Qed.

Lemma chunk_ok_norm sch c : chunk_ok sch c -> chunk_ok sch (norm_chunk c).
Proof.
  intros (Hwf & Hso & Hlv & Hnm). unfold chunk_ok. repeat split.
  - unfold wf_chunk_b in *. apply andb_true_iff in Hwf as [Hs Hw]. apply andb_true_iff. split.
    + unfold sc_schema, norm_chunk in *. cbn [sfields]. rewrite map_map. exact Hs.
    + unfold norm_chunk, sc_len. cbn [svalid sfields].
      rewrite (forallb_map_ext _ (fun f => wf_larr_b (sc_len c) (farr f))); [exact Hw|].
      intros f Hf. rewrite forallb_forall in Hw. specialize (Hw f Hf).
      rewrite Hw. apply wf_larr_setlv; [exact Hw|reflexivity].
  - unfold same_offsets_b, norm_chunk in *. cbn [sfields]. destruct (sfields c) as [|f0 t]; [reflexivity|].
    cbn [map]. rewrite (forallb_map_ext _ (fun f => list_eqb Nat.eqb (rebase (offs (farr f0))) (rebase (offs (farr f))))).
    + exact Hso.
    + intros f _. reflexivity.
  - unfold lists_valid_b, norm_chunk. cbn [svalid sfields]. apply forallb_forall. intros f Hf.
    apply in_map_iff in Hf as (g & <- & _). cbn [setlv farr lvalid]. apply forallb2_implb_refl.
  - unfold norm_missing_b, norm_chunk in *. cbn [svalid sfields].
    rewrite (forallb_map_ext _ (fun f => forallb2 (fun (sv : bool) d => sv || (d =? 0)) (svalid c) (diffs (offs (farr f))))).
    + exact Hnm.
    + intros f _. reflexivity.
Qed.

Lemma inv_norm_col q : inv_b q = true -> inv_b (norm_col q) = true.
Proof.
  intro Hinv. destruct (inv_b_parts q Hinv) as (_ & _ & Hch & Hnd & (Hne & Hcs)).
  unfold norm_col. apply inv_b_intro; try assumption.
  - destruct (chunks q); [congruence|discriminate].
  - apply Forall_forall. intros c' Hc'. apply in_map_iff in Hc' as (c & <- & Hc).
    rewrite Forall_forall in Hcs. apply chunk_ok_norm, Hcs, Hc.
Qed.

(* 1. For every column p satisfying the invariant (any chunking, offsets base, size) and every non-empty duplicate-free
      selection of existing fields: the partially loaded column denotes spec_select_fields of the full column - the
      missing rows stay missing, present rows keep exactly the selected lists. *)
Theorem partial_load_refines p sel :
  inv_b p = true -> sel <> [] -> nodupb sel = true ->
  forallb (has_name (map fst (ctype p))) sel = true ->
  res_map abs (m_partial_load p sel) = Ok (spec_select_fields (abs p) sel).
Proof.
  intros Hinv Hne Hnd Hall. rewrite (partial_load_eq p sel Hinv Hne Hnd Hall). cbn [res_map].
  destruct (inv_b_parts p Hinv) as (_ & _ & _ & _ & Hok).
  pose proof (inv_view_result p sel Hinv Hne Hnd Hall) as Hinv'.
  destruct (inv_b_parts _ Hinv') as (_ & _ & _ & _ & Hok').
  rewrite (abs_norm_col _ Hok'), (abs_view_result p sel Hok). reflexivity.
Qed.

(* 2. ... which is what selecting the fields of the fully loaded column gives (view_fields / nest[[...]]) *)
Theorem partial_load_is_view_fields p sel :
  inv_b p = true -> sel <> [] -> nodupb sel = true ->
  forallb (has_name (map fst (ctype p))) sel = true ->
  res_map abs (m_partial_load p sel) = res_map abs (m_view_fields p sel).
Proof.
  intros Hinv Hne Hnd Hall. rewrite (partial_load_refines p sel Hinv Hne Hnd Hall).
  destruct (inv_b_parts p Hinv) as (_ & _ & Hch & _ & Hok).
  rewrite (m_view_fields_eq p sel Hch), Hnd, Hall. cbn [negb res_map].
  rewrite (abs_view_result p sel Hok). reflexivity.
Qed.

(* 3. the partially loaded column satisfies the invariant again *)
Theorem partial_load_inv p sel p' :
  inv_b p = true -> sel <> [] -> nodupb sel = true ->
  forallb (has_name (map fst (ctype p))) sel = true ->
  m_partial_load p sel = Ok p' -> inv_b p' = true.
Proof.
  intros Hinv Hne Hnd Hall H. rewrite (partial_load_eq p sel Hinv Hne Hnd Hall) in H.
  inversion H; subst p'. apply inv_norm_col, inv_view_result; assumption.
Qed.

(* 4. an unknown field or a repeated one is refused *)
Theorem partial_load_refuses p sel :
  chunks p <> [] -> (nodupb sel = false \/ forallb (has_name (map fst (ctype p))) sel = false \/ sel = []) ->
  wf_b p = true -> m_partial_load p sel = Err.
Proof.
  intros Hch Hbad Hwf. unfold m_partial_load.
  destruct (nodupb sel) eqn:Hnd; [|reflexivity]. cbn [negb].
  destruct (chunks p) as [|c cs] eqn:Ec; [congruence|]. cbn [map].
  rewrite res_all_hd_err; [reflexivity|].
  unfold wf_b in Hwf. apply andb_true_iff in Hwf as [_ Hwf]. rewrite Ec in Hwf. cbn [forallb] in Hwf.
  apply andb_true_iff in Hwf as [Hc _]. apply andb_true_iff in Hc as [Hc _]. apply andb_true_iff in Hc as [Hc _].
  unfold m_partial_chunk.
  destruct Hbad as [Hbad|[Hbad|Hbad]].
  - discriminate.
  - assert (Hex : exists nm, In nm sel /\ has_name (map fst (ctype p)) nm = false).
    { clear -Hbad. induction sel as [|x t IH]; [discriminate|]. cbn [forallb] in Hbad.
      destruct (has_name (map fst (ctype p)) x) eqn:E.
      - destruct (IH Hbad) as (nm & Hin & Hn). exists nm. split; [right; exact Hin|exact Hn].
      - exists x. split; [left; reflexivity|exact E]. }
    destruct Hex as (nm & Hin & Hn). rewrite (has_name_sc_field (ctype p) c nm Hc) in Hn.
    destruct (sc_field c nm) eqn:E; [discriminate|].
    rewrite (all_some_none c sel nm Hin E). reflexivity.
  - subst sel. reflexivity.
Qed.

(* 5. why the mask is needed: WITHOUT it (struct = to_struct_array() alone, the unrepaired reader) a missing row comes
      back present; witness by computation *)
Definition m_partial_chunk_unrepaired (c : schunk) (sel : list string) : res schunk :=
  match all_some (map (leaf_of c) sel) with
  | None => Err | Some [] => Err
  | Some leaves => Ok (sc_from_arrays leaves None)
  end.
Definition missing_witness : schunk :=
  {| svalid := [true; false];
     sfields := [ {| fname := "a"%string; fty := TI64; farr := {| offs := [0; 1; 1]; lvalid := [true; false]; child := [VInt 7%Z] |} |};
                  {| fname := "b"%string; fty := TF64; farr := {| offs := [0; 1; 1]; lvalid := [true; false]; child := [VTok 1] |} |} ] |}.
Example unrepaired_partial_load_refuted :
  res_map svalid (m_partial_chunk_unrepaired missing_witness ["a"%string]) = Ok [true; true] /\
  res_map svalid (m_partial_chunk missing_witness ["a"%string]) = Ok [true; false].
Proof. split; vm_compute; reflexivity. Qed.

Print Assumptions partial_load_refines.
Print Assumptions partial_load_is_view_fields.
Print Assumptions partial_load_inv.
Print Assumptions partial_load_refuses.
Print Assumptions unrepaired_partial_load_refuted.
