(* Proofs_Fields.v — field edits: select, remove, set from lists / flat values / per-row values. *)
From Coq Require Import String List Arith Bool ZArith Lia.
Import ListNotations.
From NP Require Import Base Values Arrow Abs Kernels Logical ExtArray Codec Steps Proofs_Views Proofs_Codec Proofs_Norm.

Local Open Scope nat_scope.

(* ================= generic facts: positions of names ================= *)

Fixpoint fpos {A} (key : A -> string) (nm : string) (l : list A) : option nat :=
  match l with
  | [] => None
  | x :: t => if String.eqb (key x) nm then Some 0 else option_map S (fpos key nm t)
  end.

Lemma field_pos_go nm : forall (s : schema) k,
  (fix go (k : nat) (s : schema) : option nat :=
     match s with [] => None | nt :: t => if String.eqb (fst nt) nm then Some k else go (S k) t end) k s
  = option_map (fun i => k + i) (fpos fst nm s).
Proof.
  induction s as [|nt t IH]; intro k; [reflexivity|].
  cbn [fpos]. destruct (String.eqb (fst nt) nm); [simpl; f_equal; lia|].
  rewrite IH. destruct (fpos fst nm t); simpl; [f_equal; lia|reflexivity].
Qed.

Lemma field_pos_fpos sch nm : field_pos sch nm = fpos fst nm sch.
Proof.
  unfold field_pos. rewrite field_pos_go. destruct (fpos fst nm sch); reflexivity.
Qed.

Lemma fpos_map {A B} (key : B -> string) (g : A -> B) nm : forall l,
  fpos key nm (map g l) = fpos (fun x => key (g x)) nm l.
Proof. induction l as [|x t IH]; simpl; [reflexivity|]. rewrite IH. reflexivity. Qed.

Lemma fpos_ext {A} (k1 k2 : A -> string) nm : forall l, (forall x, In x l -> k1 x = k2 x) ->
  fpos k1 nm l = fpos k2 nm l.
Proof.
  induction l as [|x t IH]; intro H; simpl; [reflexivity|].
  rewrite (H x) by (left; reflexivity). rewrite IH; [reflexivity|]. intros y Hy. apply H. right. exact Hy.
Qed.

Lemma fpos_some {A} (key : A -> string) nm : forall l k, fpos key nm l = Some k ->
  exists x, nth_error l k = Some x /\ key x = nm.
Proof.
  induction l as [|x t IH]; intros k H; simpl in H; [discriminate|].
  destruct (String.eqb_spec (key x) nm) as [E|E].
  - inversion H; subst. exists x. split; reflexivity.
  - destruct (fpos key nm t) as [j|] eqn:Ej; [|discriminate]. simpl in H. inversion H; subst.
    destruct (IH j eq_refl) as (y & Hy & Hk). exists y. split; assumption.
Qed.

Lemma fpos_lt {A} (key : A -> string) nm l k : fpos key nm l = Some k -> k < length l.
Proof.
  intro H. destruct (fpos_some key nm l k H) as (x & Hx & _).
  apply nth_error_Some. congruence.
Qed.

Lemma fpos_has {A} (key : A -> string) nm : forall l,
  existsb (String.eqb nm) (map key l) = match fpos key nm l with Some _ => true | None => false end.
Proof.
  induction l as [|x t IH]; simpl; [reflexivity|].
  rewrite String.eqb_sym. destruct (String.eqb (key x) nm); simpl; [reflexivity|].
  rewrite IH. destruct (fpos key nm t); reflexivity.
Qed.

Lemma find_fpos {A} (key : A -> string) nm : forall l,
  find (fun x => String.eqb (key x) nm) l
  = match fpos key nm l with Some k => nth_error l k | None => None end.
Proof.
  induction l as [|x t IH]; simpl; [reflexivity|].
  destruct (String.eqb (key x) nm); [reflexivity|].
  rewrite IH. destruct (fpos key nm t); reflexivity.
Qed.

(* the first position of the key of the k-th element of a duplicate-free list is k *)
Lemma fpos_nth_nodup {A} (key : A -> string) : forall l k x,
  NoDup (map key l) -> nth_error l k = Some x -> fpos key (key x) l = Some k.
Proof.
  induction l as [|y l IH]; intros k x Hnd Hk; [destruct k; discriminate|].
  simpl. inversion Hnd as [|? ? Hnotin Hnd']; subst.
  destruct k as [|k]; simpl in Hk.
  - inversion Hk; subst. rewrite String.eqb_refl. reflexivity.
  - destruct (String.eqb_spec (key y) (key x)) as [E|E].
    + exfalso. apply Hnotin. rewrite E. apply in_map. eapply nth_error_In; eauto.
    + rewrite (IH k x Hnd' Hk). reflexivity.
Qed.

Lemma nodupb_NoDup : forall l, nodupb l = true -> NoDup l.
Proof.
  induction l as [|x t IH]; intro H; [constructor|].
  simpl in H. apply andb_true_iff in H as [H1 H2]. constructor; [|apply IH; exact H2].
  intro Hin. apply negb_true_iff in H1.
  assert (existsb (String.eqb x) t = true); [|congruence].
  apply existsb_exists. exists x. split; [exact Hin|apply String.eqb_refl].
Qed.

Lemma NoDup_nodupb : forall l, NoDup l -> nodupb l = true.
Proof.
  induction l as [|x t IH]; intro H; [reflexivity|].
  inversion H as [|? ? Hn Hd]; subst. simpl. apply andb_true_iff. split; [|apply IH; exact Hd].
  apply negb_true_iff. destruct (existsb (String.eqb x) t) eqn:E; [|reflexivity].
  apply existsb_exists in E as (y & Hy & Hxy). apply String.eqb_eq in Hxy. subst. contradiction.
Qed.

Lemma names_nodup_nodupb l : names_nodup l = nodupb l.
Proof. induction l as [|x t IH]; simpl; [reflexivity|]. unfold name_in. rewrite IH. reflexivity. Qed.

(* ================= the invariant, unpacked ================= *)

Lemma inv_b_parts p : inv_b p = true ->
  wf_b p = true /\ norm_missing_all_b p = true /\ chunks p <> [] /\ NoDup (map fst (ctype p)) /\ col_ok p.
Proof.
  unfold inv_b. intro H. apply andb_true_iff in H as [H Hnd]. apply andb_true_iff in H as [H Hch].
  apply andb_true_iff in H as [Hwf Hnm]. repeat split; try assumption.
  - intro E. rewrite E in Hch. discriminate.
  - apply nodupb_NoDup. exact Hnd.
  - apply wf_b_col_ok; assumption.
  - apply wf_b_col_ok; assumption.
Qed.

Lemma chunk_ok_wf_b sch cs : sch <> [] -> Forall (chunk_ok sch) cs ->
  wf_b {| ctype := sch; chunks := cs |} = true /\ norm_missing_all_b {| ctype := sch; chunks := cs |} = true.
Proof.
  intros Hne Hall. unfold wf_b, norm_missing_all_b. cbn [ctype chunks]. split.
  - apply andb_true_iff. split; [destruct sch; [congruence|reflexivity]|].
    apply forallb_forall. intros c Hc. rewrite Forall_forall in Hall. destruct (Hall c Hc) as (H1 & H2 & H3 & H4).
    rewrite H1, H2, H3. reflexivity.
  - apply forallb_forall. intros c Hc. rewrite Forall_forall in Hall. destruct (Hall c Hc) as (H1 & H2 & H3 & H4). exact H4.
Qed.

Lemma inv_b_intro sch cs : sch <> [] -> cs <> [] -> NoDup (map fst sch) -> Forall (chunk_ok sch) cs ->
  inv_b {| ctype := sch; chunks := cs |} = true.
Proof.
  intros Hne Hcs Hnd Hall. destruct (chunk_ok_wf_b sch cs Hne Hall) as [H1 H2].
  unfold inv_b. rewrite H1, H2. cbn [ctype chunks]. rewrite (NoDup_nodupb _ Hnd).
  destruct cs; [congruence|reflexivity].
Qed.

Lemma map_negb_negb l : map negb (map negb l) = l.
Proof. rewrite map_map. rewrite <- (map_id l) at 2. apply map_ext. intro b. apply negb_involutive. Qed.

Lemma sc_from_arrays_null c fs :
  sc_from_arrays fs (Some (sc_is_null c)) = {| svalid := svalid c; sfields := fs |}.
Proof. unfold sc_from_arrays, sc_is_null. rewrite map_negb_negb. reflexivity. Qed.

Lemma schema_eqb_refl s : schema_eqb s s = true.
Proof. apply (list_eqb_spec sfield_eqb sfield_eqb_spec). reflexivity. Qed.

(* a chunk rebuilt from a sub-collection of the fields of a good chunk is good *)
Lemma chunk_ok_sub sch sch' c fs' : chunk_ok sch c -> incl fs' (sfields c) ->
  map (fun f => (fname f, fty f)) fs' = sch' ->
  chunk_ok sch' {| svalid := svalid c; sfields := fs' |}.
Proof.
  intros Hok Hincl Hs. pose proof Hok as (Hwf & Hso & Hlv & Hnm).
  unfold chunk_ok. repeat split.
  - unfold wf_chunk_b. cbn [sfields]. unfold sc_schema. cbn [sfields]. rewrite Hs, schema_eqb_refl. cbn [andb].
    apply forallb_forall. intros f Hf. unfold sc_len. cbn [svalid].
    unfold wf_chunk_b in Hwf. apply andb_true_iff in Hwf as [_ Hwf]. rewrite forallb_forall in Hwf.
    apply Hwf. apply Hincl. exact Hf.
  - unfold same_offsets_b. cbn [sfields]. destruct fs' as [|g0 t']; [reflexivity|].
    destruct (sfields c) as [|f0 t] eqn:Ef; [exfalso; apply (Hincl g0); left; reflexivity|].
    apply forallb_forall. intros g Hg. apply (list_eqb_spec Nat.eqb Nat.eqb_eq).
    rewrite (same_offsets_spec c f0 t g0 Ef Hso) by (rewrite Ef; apply Hincl; left; reflexivity).
    rewrite (same_offsets_spec c f0 t g Ef Hso) by (rewrite Ef; apply Hincl; right; exact Hg).
    reflexivity.
  - unfold lists_valid_b in *. cbn [sfields svalid]. apply forallb_forall. intros f Hf.
    rewrite forallb_forall in Hlv. apply Hlv, Hincl, Hf.
  - unfold norm_missing_b in *. cbn [sfields svalid]. apply forallb_forall. intros f Hf.
    rewrite forallb_forall in Hnm. apply Hnm, Hincl, Hf.
Qed.

(* ================= selecting fields by position ================= *)

Definition pick {A} (d : A) (l : list A) (ks : list nat) : list A := map (fun k => nth k l d) ks.

Definition sel_idx {A} (key : A -> string) (l : list A) (fields : list string) : list nat :=
  flat_map (fun nm => match fpos key nm l with Some k => [k] | None => [] end) fields.

Lemma sel_idx_lt {A} (key : A -> string) l fields : Forall (fun k => k < length l) (sel_idx key l fields).
Proof.
  apply Forall_forall. intros k Hk. unfold sel_idx in Hk. apply in_flat_map in Hk as (nm & _ & Hk).
  destruct (fpos key nm l) as [j|] eqn:E; [|destruct Hk].
  destruct Hk as [<-|[]]. eapply fpos_lt; eauto.
Qed.

Lemma flat_map_find_pick {A} (key : A -> string) (d : A) l : forall fields,
  flat_map (fun nm => match find (fun x => String.eqb (key x) nm) l with Some x => [x] | None => [] end) fields
  = pick d l (sel_idx key l fields).
Proof.
  induction fields as [|nm t IH]; [reflexivity|].
  unfold sel_idx, pick in *. cbn [flat_map]. rewrite map_app, <- IH. f_equal.
  rewrite find_fpos. destruct (fpos key nm l) as [k|] eqn:E; [|reflexivity].
  destruct (fpos_some key nm l k E) as (x & Hx & _). rewrite Hx. simpl.
  rewrite (nth_error_nth _ _ _ Hx). reflexivity.
Qed.

Lemma flat_map_fpos_pick {A B} (key : A -> string) (l : list A) (l' : list B) (d : B) (dn : string -> B) :
  length l' = length l -> forall fields,
  flat_map (fun nm => match fpos key nm l with Some k => [nth k l' (dn nm)] | None => [] end) fields
  = pick d l' (sel_idx key l fields).
Proof.
  intros Hlen. induction fields as [|nm t IH]; [reflexivity|].
  unfold sel_idx, pick in *. cbn [flat_map]. rewrite map_app, <- IH. f_equal.
  destruct (fpos key nm l) as [k|] eqn:E; [|reflexivity]. simpl. f_equal.
  apply nth_indep. rewrite Hlen. eapply fpos_lt; eauto.
Qed.

Lemma flat_map_fpos_pick' {A B} (key : A -> string) (l : list A) (l' : list B) (d : B) : forall fields,
  flat_map (fun nm => match fpos key nm l with Some k => [nth k l' d] | None => [] end) fields
  = pick d l' (sel_idx key l fields).
Proof.
  induction fields as [|nm t IH]; [reflexivity|].
  unfold sel_idx, pick in *. cbn [flat_map]. rewrite map_app, <- IH. f_equal.
  destruct (fpos key nm l) as [k|] eqn:E; reflexivity.
Qed.

Lemma pick_map {A B} (f : A -> B) d l ks : pick (f d) (map f l) ks = map f (pick d l ks).
Proof. unfold pick. rewrite map_map. apply map_ext. intro k. apply map_nth. Qed.

Lemma pick_indep {A} (d d' : A) l ks : Forall (fun k => k < length l) ks -> pick d l ks = pick d' l ks.
Proof.
  intro H. unfold pick. apply map_ext_in. intros k Hk. rewrite Forall_forall in H. apply nth_indep, H, Hk.
Qed.

Lemma pick_incl {A} (d : A) l ks : Forall (fun k => k < length l) ks -> incl (pick d l ks) l.
Proof.
  intros H x Hx. unfold pick in Hx. apply in_map_iff in Hx as (k & <- & Hk).
  rewrite Forall_forall in H. apply nth_In, H, Hk.
Qed.

Definition dfield : field := {| fname := EmptyString; fty := TI64; farr := {| offs := []; lvalid := []; child := [] |} |}.

Definition pick_chunk (ks : list nat) (c : schunk) : schunk :=
  {| svalid := svalid c; sfields := pick dfield (sfields c) ks |}.

(* the logical column of a column rebuilt from picked fields *)
Lemma abs_pick p sch' ks : col_ok p -> Forall (fun k => k < length (ctype p)) ks -> length sch' = length ks ->
  abs {| ctype := sch'; chunks := map (pick_chunk ks) (chunks p) |}
  = {| lsch := sch'; lvalidity := lvalidity (abs p); lcols := pick [] (lcols (abs p)) ks |}.
Proof.
  intros (Hne & Hall) Hks Hlen. unfold abs at 1. cbn [ctype chunks]. f_equal.
  - rewrite map_map. reflexivity.
  - rewrite Hlen. unfold pick. rewrite (map_nth_seq _ 0 ks).
    apply map_ext_in. intros j Hj. apply in_seq in Hj.
    assert (Hk : nth j ks 0 < length (ctype p)).
    { rewrite Forall_forall in Hks. apply Hks, nth_In. lia. }
    rewrite (abs_col_k p _ Hk). rewrite map_map. f_equal. apply map_ext_in. intros c Hc.
    rewrite Forall_forall in Hall. destruct (Hall c Hc) as (Hwf & _).
    pose proof (chunk_nfields _ _ Hwf) as Hn.
    unfold chunk_cols, pick_chunk. cbn [sfields svalid]. unfold pick. rewrite map_map.
    rewrite (nth_indep _ [] ((fun k => field_rows (svalid c) (farr (nth k (sfields c) dfield))) 0))
      by (rewrite map_length; lia).
    rewrite (map_nth (fun k => field_rows (svalid c) (farr (nth k (sfields c) dfield))) ks 0 j).
    rewrite (nth_indep _ [] ((fun f => field_rows (svalid c) (farr f)) dfield)) by (rewrite map_length; lia).
    rewrite (map_nth (fun f => field_rows (svalid c) (farr f))). reflexivity.
Qed.

(* and it keeps the invariant *)
Lemma inv_pick p ks : inv_b p = true -> ks <> [] -> Forall (fun k => k < length (ctype p)) ks ->
  NoDup (map fst (pick (EmptyString, TI64) (ctype p) ks)) ->
  inv_b {| ctype := pick (EmptyString, TI64) (ctype p) ks; chunks := map (pick_chunk ks) (chunks p) |} = true.
Proof.
  intros Hinv Hks Hlt Hnd. destruct (inv_b_parts p Hinv) as (_ & _ & Hch & _ & (Hne & Hall)).
  apply inv_b_intro.
  - destruct ks; [congruence|discriminate].
  - destruct (chunks p); [congruence|discriminate].
  - exact Hnd.
  - apply Forall_forall. intros c' Hc'. apply in_map_iff in Hc' as (c & <- & Hc).
    rewrite Forall_forall in Hall. pose proof (Hall c Hc) as Hok. pose proof Hok as (Hwf & _).
    pose proof (chunk_nfields _ _ Hwf) as Hn.
    unfold pick_chunk. apply (chunk_ok_sub (ctype p)); [exact Hok| |].
    + apply pick_incl. rewrite Hn. exact Hlt.
    + rewrite <- (pick_map (fun f => (fname f, fty f)) dfield). cbn [dfield fname fty].
      pose proof (chunk_schema _ _ Hwf) as Hs. unfold sc_schema in Hs. rewrite Hs. reflexivity.
Qed.

(* ================= view_fields ================= *)

Definition dnt : string * ety := (EmptyString, TI64).

Definition view_result (p : chunked) (fs : list string) : chunked :=
  {| ctype := select_schema (ctype p) fs;
     chunks := map (fun c => sc_from_arrays
                               (flat_map (fun nm => match sc_field c nm with Some f => [f] | None => [] end) fs)
                               (Some (sc_is_null c))) (chunks p) |}.

Lemma select_schema_pick sch fs : select_schema sch fs = pick dnt sch (sel_idx fst sch fs).
Proof. unfold select_schema. apply (flat_map_find_pick fst dnt sch fs). Qed.

Lemma sel_idx_chunk sch c fs : wf_chunk_b sch c = true -> sel_idx fname (sfields c) fs = sel_idx fst sch fs.
Proof.
  intro Hwf. pose proof (chunk_schema _ _ Hwf) as Hs. unfold sc_schema in Hs.
  unfold sel_idx. apply flat_map_ext. intro nm. rewrite <- Hs, fpos_map. reflexivity.
Qed.

Lemma view_result_pick p fs : col_ok p ->
  view_result p fs = {| ctype := pick dnt (ctype p) (sel_idx fst (ctype p) fs);
                        chunks := map (pick_chunk (sel_idx fst (ctype p) fs)) (chunks p) |}.
Proof.
  intros (Hne & Hall). unfold view_result. rewrite select_schema_pick. f_equal.
  apply map_ext_in. intros c Hc. rewrite Forall_forall in Hall. destruct (Hall c Hc) as (Hwf & _).
  rewrite sc_from_arrays_null. unfold pick_chunk. f_equal.
  unfold sc_field. rewrite (flat_map_find_pick fname dfield (sfields c) fs).
  rewrite (sel_idx_chunk _ _ fs Hwf). reflexivity.
Qed.

Lemma spec_select_fields_pick L fs : length (lcols L) = length (lsch L) ->
  spec_select_fields L fs
  = {| lsch := pick dnt (lsch L) (sel_idx fst (lsch L) fs); lvalidity := lvalidity L;
       lcols := pick [] (lcols L) (sel_idx fst (lsch L) fs) |}.
Proof.
  intro Hlen. unfold spec_select_fields. f_equal.
  - rewrite <- (flat_map_fpos_pick fst (lsch L) (lsch L) dnt (fun nm => (nm, TI64)) eq_refl fs).
    apply flat_map_ext. intro nm. rewrite field_pos_fpos. reflexivity.
  - rewrite <- (flat_map_fpos_pick' fst (lsch L) (lcols L) [] fs).
    apply flat_map_ext. intro nm. rewrite field_pos_fpos. reflexivity.
Qed.

Lemma length_lcols_abs p : length (lcols (abs p)) = length (ctype p).
Proof. unfold abs. cbn [lcols]. rewrite map_length, seq_length. reflexivity. Qed.

Lemma abs_view_result p fs : col_ok p -> abs (view_result p fs) = spec_select_fields (abs p) fs.
Proof.
  intro Hok. rewrite (view_result_pick p fs Hok).
  rewrite (spec_select_fields_pick (abs p) fs) by apply length_lcols_abs.
  rewrite abs_pick; [reflexivity|exact Hok|apply sel_idx_lt|].
  unfold pick. rewrite map_length. reflexivity.
Qed.

Lemma sel_idx_all {A} (key : A -> string) (d : A) l : forall fs,
  forallb (has_name (map key l)) fs = true ->
  map (fun k => key (nth k l d)) (sel_idx key l fs) = fs.
Proof.
  induction fs as [|nm t IH]; intro H; [reflexivity|].
  cbn [forallb] in H. apply andb_true_iff in H as [H1 H2].
  unfold sel_idx in *. cbn [flat_map]. rewrite map_app, (IH H2).
  unfold has_name in H1. rewrite fpos_has in H1.
  destruct (fpos key nm l) as [k|] eqn:E; [|discriminate].
  destruct (fpos_some key nm l k E) as (x & Hx & Hk). simpl.
  rewrite (nth_error_nth _ _ _ Hx), Hk. reflexivity.
Qed.

Lemma inv_view_result p fs : inv_b p = true -> fs <> [] -> nodupb fs = true ->
  forallb (has_name (map fst (ctype p))) fs = true -> inv_b (view_result p fs) = true.
Proof.
  intros Hinv Hne Hnd Hall. destruct (inv_b_parts p Hinv) as (_ & _ & _ & _ & Hok).
  rewrite (view_result_pick p fs Hok).
  pose proof (sel_idx_all fst dnt (ctype p) fs Hall) as Hfs.
  apply inv_pick; [exact Hinv| |apply sel_idx_lt|].
  - intro E. rewrite E in Hfs. simpl in Hfs. congruence.
  - unfold pick. rewrite map_map. unfold dnt in Hfs. rewrite Hfs. apply nodupb_NoDup, Hnd.
Qed.

Lemma m_view_fields_eq p fs : chunks p <> [] ->
  m_view_fields p fs =
  if negb (nodupb fs) then Err else
  if negb (forallb (has_name (map fst (ctype p))) fs) then Err else Ok (view_result p fs).
Proof.
  intro Hch. unfold m_view_fields, m_field_names. destruct (chunks p) eqn:E; [congruence|].
  unfold view_result. rewrite E. reflexivity.
Qed.

Lemma viewfields_refines p fs : inv_b p = true -> op_ok p (OViewFields fs) = true ->
  res_map abs (m_step p (OViewFields fs)) = spec_step (abs p) (OViewFields fs).
Proof.
  intros Hinv _. destruct (inv_b_parts p Hinv) as (_ & _ & Hch & _ & Hok).
  cbn [m_step spec_step]. rewrite (m_view_fields_eq p fs Hch).
  unfold spec_col_view_fields. pose proof (names_nodup_nodupb fs) as Hn.
  destruct (nodupb fs); rewrite Hn; [|reflexivity]. cbn [negb].
  change (forallb (name_in (names_of (abs p))) fs) with (forallb (has_name (map fst (ctype p))) fs).
  destruct (forallb (has_name (map fst (ctype p))) fs); [|reflexivity]. cbn [negb res_map].
  rewrite (abs_view_result p fs Hok). reflexivity.
Qed.

Lemma viewfields_inv p fs p' : inv_b p = true -> op_ok p (OViewFields fs) = true ->
  m_step p (OViewFields fs) = Ok p' -> inv_b p' = true.
Proof.
  intros Hinv Hop H. destruct (inv_b_parts p Hinv) as (_ & _ & Hch & _ & Hok).
  cbn [m_step] in H. rewrite (m_view_fields_eq p fs Hch) in H.
  destruct (nodupb fs) eqn:Hnd; [|discriminate]. cbn [negb] in H.
  destruct (forallb (has_name (map fst (ctype p))) fs) eqn:Hall; [|discriminate]. cbn [negb] in H.
  inversion H; subst p'. apply inv_view_result; try assumption.
  cbn [op_ok] in Hop. intro E. subst fs. discriminate.
Qed.

(* ================= pop_fields ================= *)

Lemma flat_map_find_id {A} (key : A -> string) l : NoDup (map key l) -> forall l', incl l' l ->
  flat_map (fun nm => match find (fun x => String.eqb (key x) nm) l with Some x => [x] | None => [] end) (map key l') = l'.
Proof.
  intros Hnd. induction l' as [|x t IH]; intro Hincl; [reflexivity|].
  cbn [map flat_map]. rewrite IH by (intros y Hy; apply Hincl; right; exact Hy).
  assert (Hx : In x l) by (apply Hincl; left; reflexivity).
  apply In_nth_error in Hx as (k & Hk).
  rewrite (find_nth_error_nodup key l k x Hnd Hk). reflexivity.
Qed.

Lemma filter_map_comm {A B} (g : A -> B) (Q : B -> bool) : forall l,
  filter Q (map g l) = map g (filter (fun x => Q (g x)) l).
Proof. induction l as [|x t IH]; simpl; [reflexivity|]. destruct (Q (g x)); simpl; rewrite IH; reflexivity. Qed.

Lemma filter_as_select {A} (key : A -> string) (Q : string -> bool) l : NoDup (map key l) ->
  filter (fun x => Q (key x)) l
  = flat_map (fun nm => match find (fun x => String.eqb (key x) nm) l with Some x => [x] | None => [] end)
             (filter Q (map key l)).
Proof.
  intro Hnd. rewrite filter_map_comm. symmetry. apply flat_map_find_id; [exact Hnd|].
  intros x Hx. apply filter_In in Hx. tauto.
Qed.

Lemma filter_negb_empty {A} (f : A -> bool) : forall l,
  (length (filter (fun x => negb (f x)) l) =? 0) = forallb f l.
Proof. induction l as [|x t IH]; simpl; [reflexivity|]. destruct (f x); simpl; [exact IH|reflexivity]. Qed.

Definition pop_keep (p : chunked) (fields : list string) : list string :=
  filter (fun nm => negb (has_name fields nm)) (map fst (ctype p)).

Lemma pop_result_view p fields : inv_b p = true ->
  {| ctype := filter (fun nt => negb (has_name fields (fst nt))) (ctype p);
     chunks := map (fun c => sc_from_arrays (filter (fun f => negb (has_name fields (fname f))) (sfields c))
                                            (Some (sc_is_null c))) (chunks p) |}
  = view_result p (pop_keep p fields).
Proof.
  intro Hinv. destruct (inv_b_parts p Hinv) as (_ & _ & _ & Hnd & (Hne & Hall)).
  unfold view_result, pop_keep. f_equal.
  - unfold select_schema. apply (filter_as_select fst (fun nm => negb (has_name fields nm)) (ctype p) Hnd).
  - apply map_ext_in. intros c Hc. f_equal. rewrite Forall_forall in Hall. destruct (Hall c Hc) as (Hwf & _).
    pose proof (chunk_schema _ _ Hwf) as Hs. unfold sc_schema in Hs.
    assert (Hm : map fname (sfields c) = map fst (ctype p)) by (rewrite <- Hs, map_map; reflexivity).
    rewrite <- Hm. unfold sc_field.
    apply (filter_as_select fname (fun nm => negb (has_name fields nm)) (sfields c)).
    rewrite Hm. exact Hnd.
Qed.

Lemma m_pop_fields_eq p fields : inv_b p = true ->
  m_pop_fields p fields =
  if negb (forallb (has_name (map fst (ctype p))) fields) then Err else
  if forallb (has_name fields) (map fst (ctype p)) then Err else Ok (view_result p (pop_keep p fields)).
Proof.
  intro Hinv. destruct (inv_b_parts p Hinv) as (_ & _ & Hch & _ & _).
  unfold m_pop_fields, m_field_names. destruct (chunks p) eqn:E; [congruence|]. rewrite <- E.
  destruct (forallb (has_name (map fst (ctype p))) fields); [|reflexivity]. cbn [negb].
  rewrite (filter_negb_empty (has_name fields)).
  destruct (forallb (has_name fields) (map fst (ctype p))); [reflexivity|].
  rewrite (pop_result_view p fields Hinv). reflexivity.
Qed.

Lemma popfields_refines p fs : inv_b p = true -> op_ok p (OPopFields fs) = true ->
  res_map abs (m_step p (OPopFields fs)) = spec_step (abs p) (OPopFields fs).
Proof.
  intros Hinv _. destruct (inv_b_parts p Hinv) as (_ & _ & Hch & _ & Hok).
  cbn [m_step spec_step]. rewrite (m_pop_fields_eq p fs Hinv).
  unfold spec_col_pop_fields.
  change (forallb (name_in (names_of (abs p))) fs) with (forallb (has_name (map fst (ctype p))) fs).
  destruct (forallb (has_name (map fst (ctype p))) fs); [|reflexivity]. cbn [negb].
  change (forallb (name_in fs) (names_of (abs p))) with (forallb (has_name fs) (map fst (ctype p))).
  destruct (forallb (has_name fs) (map fst (ctype p))); [reflexivity|]. cbn [res_map].
  rewrite (abs_view_result p _ Hok). reflexivity.
Qed.

Lemma popfields_inv p fs p' : inv_b p = true -> op_ok p (OPopFields fs) = true ->
  m_step p (OPopFields fs) = Ok p' -> inv_b p' = true.
Proof.
  intros Hinv _ H. destruct (inv_b_parts p Hinv) as (_ & _ & Hch & Hnd & Hok).
  cbn [m_step] in H. rewrite (m_pop_fields_eq p fs Hinv) in H.
  destruct (forallb (has_name (map fst (ctype p))) fs) eqn:Hall; [|discriminate]. cbn [negb] in H.
  destruct (forallb (has_name fs) (map fst (ctype p))) eqn:Hk; [discriminate|].
  inversion H; subst p'. apply inv_view_result; [exact Hinv| | |].
  - intro E. rewrite <- (filter_negb_empty (has_name fs)) in Hk. unfold pop_keep in E. rewrite E in Hk. discriminate.
  - apply NoDup_nodupb. unfold pop_keep. apply NoDup_filter. exact Hnd.
  - apply forallb_forall. intros x Hx. unfold pop_keep in Hx. apply filter_In in Hx as [Hx _].
    unfold has_name. apply existsb_exists. exists x. split; [exact Hx|apply String.eqb_refl].
Qed.

(* ================= list_set / upsert ================= *)

Lemma length_list_set {A} : forall (l : list A) k x, length (list_set l k x) = length l.
Proof. induction l as [|y t IH]; intros [|k] x; simpl; try reflexivity. rewrite IH. reflexivity. Qed.

Lemma map_list_set {A B} (f : A -> B) : forall l k x, map f (list_set l k x) = list_set (map f l) k (f x).
Proof. induction l as [|y t IH]; intros [|k] x; simpl; try reflexivity. rewrite IH. reflexivity. Qed.

Lemma nth_list_set_eq {A} : forall (l : list A) k x d, k < length l -> nth k (list_set l k x) d = x.
Proof. induction l as [|y t IH]; intros [|k] x d H; simpl in *; try lia; [reflexivity|]. apply IH. lia. Qed.

Lemma nth_list_set_neq {A} : forall (l : list A) k j x d, j <> k -> nth j (list_set l k x) d = nth j l d.
Proof.
  induction l as [|y t IH]; intros [|k] [|j] x d H; simpl; try reflexivity; try congruence.
  apply IH. congruence.
Qed.

Lemma list_set_as_map {A} (d : A) : forall l k x,
  map (fun i => if i =? k then x else nth i l d) (seq 0 (length l)) = list_set l k x.
Proof.
  induction l as [|y t IH]; intros k x; [reflexivity|].
  cbn [length seq map]. rewrite <- seq_shift, map_map. destruct k as [|k]; cbn [list_set Nat.eqb nth].
  - f_equal. rewrite <- (map_nth_seq (fun z => z) d t) at 1. apply map_id.
  - f_equal. apply IH.
Qed.

Lemma upsert_field_fpos : forall fs f,
  upsert_field fs f = match fpos fname (fname f) fs with Some k => list_set fs k f | None => fs ++ [f] end.
Proof.
  induction fs as [|g t IH]; intro f; [reflexivity|].
  cbn [upsert_field fpos]. destruct (String.eqb (fname g) (fname f)); [reflexivity|].
  rewrite IH. destruct (fpos fname (fname f) t); reflexivity.
Qed.

Lemma upsert_schema_fpos : forall sch nt,
  upsert_schema sch nt = match fpos fst (fst nt) sch with Some k => list_set sch k nt | None => sch ++ [nt] end.
Proof.
  induction sch as [|g t IH]; intro nt; [reflexivity|].
  cbn [upsert_schema fpos]. destruct (String.eqb (fst g) (fst nt)); [reflexivity|].
  rewrite IH. destruct (fpos fst (fst nt) t); reflexivity.
Qed.

Lemma sc_schema_upsert : forall fs f,
  map (fun g => (fname g, fty g)) (upsert_field fs f)
  = upsert_schema (map (fun g => (fname g, fty g)) fs) (fname f, fty f).
Proof.
  induction fs as [|g t IH]; intro f; [reflexivity|].
  cbn [upsert_field upsert_schema map fst]. destruct (String.eqb (fname g) (fname f)); [reflexivity|].
  cbn [map]. rewrite IH. reflexivity.
Qed.

Lemma upsert_schema_names : forall sch nm ty,
  map fst (upsert_schema sch (nm, ty))
  = if existsb (String.eqb nm) (map fst sch) then map fst sch else map fst sch ++ [nm].
Proof.
  induction sch as [|g t IH]; intros nm ty; [reflexivity|].
  cbn [upsert_schema map fst existsb]. rewrite (String.eqb_sym nm (fst g)).
  destruct (String.eqb_spec (fst g) nm) as [E|E]; cbn [orb map fst]; [congruence|].
  rewrite IH. destruct (existsb (String.eqb nm) (map fst t)); reflexivity.
Qed.

Lemma upsert_schema_nodup sch nm ty : NoDup (map fst sch) -> NoDup (map fst (upsert_schema sch (nm, ty))).
Proof.
  intro H. rewrite upsert_schema_names. destruct (existsb (String.eqb nm) (map fst sch)) eqn:E; [exact H|].
  apply NoDup_rev in H. rewrite <- (rev_involutive (map fst sch ++ [nm])). apply NoDup_rev.
  rewrite rev_app_distr. simpl. constructor; [|exact H].
  intro Hin. apply in_rev in Hin.
  assert (existsb (String.eqb nm) (map fst sch) = true); [|congruence].
  apply existsb_exists. exists nm. split; [exact Hin|apply String.eqb_refl].
Qed.

Lemma upsert_schema_ne sch nt : upsert_schema sch nt <> [].
Proof. destruct sch as [|g t]; simpl; [discriminate|]. destruct (String.eqb (fst g) (fst nt)); discriminate. Qed.

Lemma forallb_upsert (P : field -> bool) : forall fs f, forallb P fs = true -> P f = true ->
  forallb P (upsert_field fs f) = true.
Proof.
  induction fs as [|g t IH]; intros f H Hf; simpl; [rewrite Hf; reflexivity|].
  simpl in H. apply andb_true_iff in H as [Hg Ht].
  destruct (String.eqb (fname g) (fname f)); simpl; [rewrite Hf, Ht|rewrite Hg, IH]; auto.
Qed.

(* with every old field passing, the test on the upserted list is the test on the new field
   (the replaced field, if any, is no longer asked) *)
Lemma forallb_upsert_eq (P : field -> bool) : forall fs f, forallb P fs = true ->
  forallb P (upsert_field fs f) = P f.
Proof.
  induction fs as [|g t IH]; intros f H; simpl; [apply andb_true_r|].
  simpl in H. apply andb_true_iff in H as [Hg Ht].
  destruct (String.eqb (fname g) (fname f)); simpl; [rewrite Ht; apply andb_true_r|rewrite Hg, IH; auto].
Qed.

(* ================= row slices of a list array ================= *)

Lemma adj_skipn : forall a o, adj (skipn a o) = skipn a (adj o).
Proof.
  induction a as [|a IH]; intro o; [reflexivity|].
  destruct o as [|x [|y t]]; [reflexivity| |].
  - cbn [skipn adj]. rewrite skipn_nil. destruct a; reflexivity.
  - rewrite adj_cons2. cbn [skipn]. apply IH.
Qed.

Lemma adj_firstn : forall m o, adj (firstn (S m) o) = firstn m (adj o).
Proof.
  induction m as [|m IH]; intro o.
  - destruct o as [|x [|y t]]; reflexivity.
  - destruct o as [|x [|y t]]; [reflexivity|reflexivity|].
    rewrite adj_cons2. cbn [firstn]. change (y :: firstn m t) with (firstn (S m) (y :: t)).
    rewrite <- IH. cbn [firstn]. destruct m; reflexivity.
Qed.

Lemma adj_window a b o : adj (firstn (S (b - a)) (skipn a o)) = slice a b (adj o).
Proof. unfold slice. rewrite adj_firstn, adj_skipn. reflexivity. Qed.

Lemma slice_map {A B} (f : A -> B) a b l : slice a b (map f l) = map f (slice a b l).
Proof. unfold slice. rewrite skipn_map, firstn_map. reflexivity. Qed.

Lemma cuts_window a b o (ch : list val) :
  cuts (firstn (S (b - a)) (skipn a o)) ch = slice a b (cuts o ch).
Proof. unfold cuts. rewrite adj_window, slice_map. reflexivity. Qed.

Lemma diffs_window a b o : diffs (firstn (S (b - a)) (skipn a o)) = slice a b (diffs o).
Proof. unfold diffs. rewrite adj_window, slice_map. reflexivity. Qed.

Lemma mono_skipn : forall a o, mono o -> mono (skipn a o).
Proof.
  induction a as [|a IH]; intros o H; [exact H|]. destruct o as [|x t]; [exact I|].
  cbn [skipn]. apply IH. apply (mono_tail _ _ H).
Qed.

Lemma mono_firstn : forall m o, mono o -> mono (firstn m o).
Proof.
  induction m as [|m IH]; intros o H; [exact I|].
  destruct o as [|x [|y t]]; [exact I|destruct m; exact I|].
  destruct H as [Hxy H]. specialize (IH (y :: t) H).
  cbn [firstn]. destruct m as [|m]; [exact I|].
  cbn [firstn] in IH. cbn [firstn]. split; [exact Hxy|exact IH].
Qed.

Lemma mono_in_le_last : forall o x, mono o -> In x o -> x <= last o 0.
Proof.
  induction o as [|a t IH]; intros x Hm Hin; [destruct Hin|].
  destruct t as [|b t'].
  - destruct Hin as [<-|[]]. simpl. lia.
  - change (last (a :: b :: t') 0) with (last (b :: t') 0).
    destruct Hin as [<-|Hin].
    + destruct Hm as [Hab Hm]. specialize (IH b Hm (or_introl eq_refl)). lia.
    + apply IH; [apply (mono_tail _ _ Hm)|exact Hin].
Qed.

Lemma last_in : forall (o : list nat) d, o <> [] -> In (last o d) o.
Proof.
  induction o as [|a t IH]; intros d H; [congruence|].
  destruct t as [|b t']; [left; reflexivity|]. right.
  change (last (a :: b :: t') d) with (last (b :: t') d). apply IH. discriminate.
Qed.

Lemma in_firstn {A} : forall m (l : list A) x, In x (firstn m l) -> In x l.
Proof.
  induction m as [|m IH]; intros [|y l] x H; simpl in *; try contradiction.
  destruct H as [H|H]; [left; exact H|right; apply IH; exact H].
Qed.

Lemma in_skipn {A} : forall a (l : list A) x, In x (skipn a l) -> In x l.
Proof.
  induction a as [|a IH]; intros l x H; [exact H|]. destruct l as [|y l]; [destruct H|].
  right. apply IH. exact H.
Qed.

Lemma wf_la_slice n v a b : wf_larr_b n v = true -> a <= b -> b <= n ->
  wf_larr_b (b - a) (la_slice a b v) = true.
Proof.
  intros Hwf Hab Hbn. apply wf_larr_b_spec in Hwf as (Ho & Hv & Hm & Hl).
  unfold wf_larr_b, la_slice. cbn [offs lvalid child].
  assert (Hlen : length (firstn (S (b - a)) (skipn a (offs v))) = S (b - a))
    by (rewrite firstn_length, skipn_length; lia).
  rewrite Hlen, Nat.eqb_refl. rewrite length_slice by lia. rewrite Nat.eqb_refl. cbn [andb].
  apply andb_true_iff. split.
  - apply monob_spec, mono_firstn, mono_skipn, Hm.
  - apply Nat.leb_le. etransitivity; [|exact Hl].
    apply mono_in_le_last; [exact Hm|].
    apply (in_skipn a), (in_firstn (S (b - a))). apply last_in.
    intro E. rewrite E in Hlen. discriminate.
Qed.

Lemma forallb_firstn {A} (f : A -> bool) : forall m l, forallb f l = true -> forallb f (firstn m l) = true.
Proof.
  induction m as [|m IH]; intros [|x l] H; simpl in *; try reflexivity.
  apply andb_true_iff in H as [H1 H2]. rewrite H1, IH; auto.
Qed.

Lemma forallb_skipn {A} (f : A -> bool) : forall a l, forallb f l = true -> forallb f (skipn a l) = true.
Proof.
  induction a as [|a IH]; intros [|x l] H; simpl in *; try reflexivity; [exact H|].
  apply andb_true_iff in H as [H1 H2]. apply IH, H2.
Qed.

Lemma forallb_slice {A} (f : A -> bool) a b l : forallb f l = true -> forallb f (slice a b l) = true.
Proof. intro H. unfold slice. apply forallb_firstn, forallb_skipn, H. Qed.

Lemma olist_all_valid : forall (cs : list (list val)) (lv : list bool),
  length cs = length lv -> forallb (fun b => b) lv = true ->
  map (@olist val) (map2 (fun c (v : bool) => if v then Some c else None) cs lv) = cs.
Proof.
  induction cs as [|c cs IH]; intros [|v lv] Hlen Hall; cbn [length forallb] in *; try discriminate; try reflexivity.
  apply andb_true_iff in Hall as [Hv Hall]. subst v. rewrite map2_cons. cbn [map olist]. f_equal.
  apply IH; [lia|exact Hall].
Qed.

(* the python lists of an all-valid list array are its cuts *)
Lemma olists_all_valid n v : wf_larr_b n v = true -> forallb (fun b => b) (lvalid v) = true ->
  map (@olist val) (la_lists v) = cuts (offs v) (child v).
Proof.
  intros Hwf Hall. apply wf_larr_b_spec in Hwf as (Ho & Hv & _).
  unfold la_lists. apply olist_all_valid; [rewrite length_cuts; lia|exact Hall].
Qed.

Lemma field_rows_slice n v a b sv : wf_larr_b n v = true -> forallb (fun b => b) (lvalid v) = true ->
  a <= b -> b <= n ->
  field_rows sv (la_slice a b v) = mask_rows sv (slice a b (cuts (offs v) (child v))).
Proof.
  intros Hwf Hall Hab Hbn. unfold field_rows.
  rewrite (olists_all_valid (b - a) (la_slice a b v)).
  - unfold la_slice. cbn [offs child]. rewrite cuts_window. reflexivity.
  - apply wf_la_slice with (n := n); assumption.
  - unfold la_slice. cbn [lvalid]. apply forallb_slice, Hall.
Qed.

(* ================= set_list_field: the rebuilt column ================= *)

Lemma map2_app {A B C} (f : A -> B -> C) : forall l1 m1 l2 m2, length l1 = length m1 ->
  map2 f (l1 ++ l2) (m1 ++ m2) = map2 f l1 m1 ++ map2 f l2 m2.
Proof.
  induction l1 as [|x l1 IH]; intros [|y m1] l2 m2 H; simpl in H; try discriminate; [reflexivity|].
  cbn [app]. rewrite !map2_cons, IH by lia. reflexivity.
Qed.

Lemma mask_rows_app sv1 l1 sv2 l2 : length sv1 = length l1 ->
  mask_rows (sv1 ++ sv2) (l1 ++ l2) = mask_rows sv1 l1 ++ mask_rows sv2 l2.
Proof. apply map2_app. Qed.

Definition total_len (cs : list schunk) : nat := sum (map sc_len cs).

Section SetList.
Variables (nm : string) (ty : ety) (v : larr).

Definition newfield (c : schunk) (s : nat) : field :=
  {| fname := nm; fty := ty; farr := la_slice s (s + sc_len c) v |}.
Definition set_chunk (c : schunk) (s : nat) : schunk :=
  sc_from_arrays (upsert_field (sfields c) (newfield c s)) (Some (sc_is_null c)).
Definition set_chunks (s : nat) (cs : list schunk) : list schunk :=
  map2 set_chunk cs (chunk_starts s cs).
Definition set_result (p : chunked) : chunked :=
  {| ctype := upsert_schema (ctype p) (nm, ty); chunks := set_chunks 0 (chunks p) |}.

Lemma set_chunks_cons s c cs : set_chunks s (c :: cs) = set_chunk c s :: set_chunks (s + sc_len c) cs.
Proof. reflexivity. Qed.
Lemma set_chunks_nil s : set_chunks s [] = [].
Proof. reflexivity. Qed.

Lemma length_set_chunks : forall cs s, length (set_chunks s cs) = length cs.
Proof. induction cs as [|c cs IH]; intro s; [reflexivity|]. rewrite set_chunks_cons. simpl. rewrite IH. reflexivity. Qed.

Lemma set_chunk_eq c s :
  set_chunk c s = {| svalid := svalid c; sfields := upsert_field (sfields c) (newfield c s) |}.
Proof. apply sc_from_arrays_null. Qed.

Lemma svalid_set_chunks : forall cs s, map svalid (set_chunks s cs) = map svalid cs.
Proof.
  induction cs as [|c cs IH]; intro s; [reflexivity|]. rewrite set_chunks_cons. cbn [map].
  rewrite IH, set_chunk_eq. reflexivity.
Qed.

Definition new_rows (c : schunk) (s : nat) : list (list val) :=
  field_rows (svalid c) (la_slice s (s + sc_len c) v).

Lemma chunk_cols_set_chunk c s :
  chunk_cols (set_chunk c s)
  = match fpos fname nm (sfields c) with
    | Some k => list_set (chunk_cols c) k (new_rows c s)
    | None => chunk_cols c ++ [new_rows c s]
    end.
Proof.
  rewrite set_chunk_eq. unfold chunk_cols. cbn [sfields svalid].
  rewrite upsert_field_fpos. cbn [newfield fname].
  destruct (fpos fname nm (sfields c)); [rewrite map_list_set|rewrite map_app]; reflexivity.
Qed.

Definition chunk_at (pos : option nat) (nsch : nat) (c : schunk) : Prop :=
  fpos fname nm (sfields c) = pos /\ length (sfields c) = nsch.

Definition target (pos : option nat) (nsch : nat) : nat := match pos with Some k => k | None => nsch end.

Lemma col_set_other pos nsch j : j < nsch -> j <> target pos nsch ->
  forall cs s, Forall (chunk_at pos nsch) cs ->
  concat (map (fun c' => nth j (chunk_cols c') []) (set_chunks s cs))
  = concat (map (fun c => nth j (chunk_cols c) []) cs).
Proof.
  intros Hj Hne. induction cs as [|c cs IH]; intros s Hall; [reflexivity|].
  inversion Hall as [|? ? Hc Hcs]; subst. destruct Hc as (Hp & Hn). rewrite set_chunks_cons. cbn [map concat].
  rewrite (IH _ Hcs). f_equal. rewrite chunk_cols_set_chunk, Hp.
  destruct pos as [k|]; cbn [target] in Hne.
  - apply nth_list_set_neq. exact Hne.
  - apply app_nth1. unfold chunk_cols. rewrite map_length. lia.
Qed.

Lemma col_set_target pos nsch : (forall k, pos = Some k -> k < nsch) ->
  forall cs s, Forall (chunk_at pos nsch) cs ->
  concat (map (fun c' => nth (target pos nsch) (chunk_cols c') []) (set_chunks s cs))
  = concat (map2 new_rows cs (chunk_starts s cs)).
Proof.
  intros Hk. induction cs as [|c cs IH]; intros s Hall; [reflexivity|].
  inversion Hall as [|? ? Hc Hcs]; subst. destruct Hc as (Hp & Hn). rewrite set_chunks_cons. cbn [map concat chunk_starts].
  rewrite map2_cons. cbn [concat]. rewrite (IH _ Hcs). f_equal. rewrite chunk_cols_set_chunk, Hp.
  destruct pos as [k|]; cbn [target].
  - apply nth_list_set_eq. unfold chunk_cols. rewrite map_length, Hn. apply Hk. reflexivity.
  - rewrite app_nth2 by (unfold chunk_cols; rewrite map_length; lia).
    unfold chunk_cols. rewrite map_length, Hn, Nat.sub_diag. reflexivity.
Qed.

Hypothesis Hwfv : wf_larr_b (la_len v) v = true.
Hypothesis Hallv : forallb (fun b => b) (lvalid v) = true.

Lemma length_cuts_v : length (cuts (offs v) (child v)) = la_len v.
Proof. apply wf_larr_b_spec in Hwfv as (Ho & _). rewrite length_cuts, Ho. lia. Qed.

Lemma new_rows_concat : forall cs s, s + total_len cs <= la_len v ->
  concat (map2 new_rows cs (chunk_starts s cs))
  = mask_rows (concat (map svalid cs)) (slice s (s + total_len cs) (cuts (offs v) (child v))).
Proof.
  induction cs as [|c cs IH]; intros s Hle.
  - unfold total_len. cbn [map sum concat chunk_starts]. rewrite Nat.add_0_r, slice_same. reflexivity.
  - unfold total_len in *. cbn [map sum chunk_starts concat] in *. rewrite map2_cons. cbn [concat].
    rewrite IH by lia.
    rewrite <- (@slice_app _ (cuts (offs v) (child v)) s (s + sc_len c) (s + (sc_len c + sum (map sc_len cs)))) by lia.
    rewrite mask_rows_app by (rewrite length_slice; [unfold sc_len; lia|lia|rewrite length_cuts_v; lia]).
    f_equal; [|rewrite Nat.add_assoc; reflexivity].
    unfold new_rows. apply (field_rows_slice (la_len v)); try assumption; lia.
Qed.

End SetList.

Lemma col_ok_chunk_at p nm : col_ok p -> NoDup (map fst (ctype p)) ->
  Forall (chunk_at nm (fpos fst nm (ctype p)) (length (ctype p))) (chunks p).
Proof.
  intros (Hne & Hall) _. apply Forall_forall. intros c Hc. rewrite Forall_forall in Hall.
  destruct (Hall c Hc) as (Hwf & _). split; [|apply (chunk_nfields _ _ Hwf)].
  pose proof (chunk_schema _ _ Hwf) as Hs. unfold sc_schema in Hs. rewrite <- Hs, fpos_map. reflexivity.
Qed.

Lemma new_col_all v p : wf_larr_b (la_len v) v = true -> forallb (fun b => b) (lvalid v) = true ->
  la_len v = m_len p ->
  concat (map2 (new_rows v) (chunks p) (chunk_starts 0 (chunks p)))
  = mask_rows (lvalidity (abs p)) (map (@olist val) (la_lists v)).
Proof.
  intros Hwf Hall Hlen. pose proof (new_rows_concat v Hwf Hall (chunks p) 0) as H.
  assert (Ht : total_len (chunks p) = la_len v) by (rewrite Hlen; reflexivity).
  rewrite H by (rewrite Ht; simpl; lia). cbn [Nat.add]. rewrite Ht.
  rewrite <- (length_cuts_v v Hwf) at 1. rewrite slice_all.
  rewrite (olists_all_valid _ _ Hwf Hall). reflexivity.
Qed.

Lemma abs_set_result p nm ty v : inv_b p = true ->
  wf_larr_b (la_len v) v = true -> forallb (fun b => b) (lvalid v) = true -> la_len v = m_len p ->
  abs (set_result nm ty v p) = spec_set_field (abs p) nm ty (map (@olist val) (la_lists v)).
Proof.
  intros Hinv Hwf Hall Hlen. destruct (inv_b_parts p Hinv) as (_ & _ & Hch & Hnd & Hok).
  pose proof (col_ok_chunk_at p nm Hok Hnd) as Hat.
  pose proof (new_col_all v p Hwf Hall Hlen) as Hnew.
  unfold spec_set_field. rewrite field_pos_fpos. cbn [lsch abs].
  change (lsch (abs p)) with (ctype p).
  unfold abs at 1. cbn [ctype chunks set_result].
  rewrite svalid_set_chunks. rewrite upsert_schema_fpos. cbn [fst].
  remember (fpos fst nm (ctype p)) as pos eqn:Epos.
  assert (Hk : forall k, pos = Some k -> k < length (ctype p)).
  { intros k E. rewrite Epos in E. eapply fpos_lt; eauto. }
  destruct pos as [k|].
  - (* replace field k *)
    rewrite length_list_set, length_lcols_abs.
    f_equal.
    + symmetry. apply list_set_as_map.
    + apply map_ext_in. intros j Hj. apply in_seq in Hj.
      destruct (Nat.eqb_spec j k) as [->|Hne].
      * rewrite <- Hnew.
        apply (col_set_target nm ty v (Some k) (length (ctype p)) Hk (chunks p) 0 Hat).
      * rewrite (abs_col_k p j) by lia.
        apply (col_set_other nm ty v (Some k) (length (ctype p)) j); [lia|exact Hne|exact Hat].
  - (* append *)
    rewrite app_length. cbn [length]. rewrite seq_app, map_app. cbn [seq map Nat.add].
    f_equal. f_equal.
    + unfold abs. cbn [lcols]. apply map_ext_in. intros j Hj. apply in_seq in Hj.
      apply (col_set_other nm ty v None (length (ctype p)) j); [lia|cbn [target]; lia|exact Hat].
    + f_equal. rewrite <- Hnew.
      apply (col_set_target nm ty v None (length (ctype p)) Hk (chunks p) 0 Hat).
Qed.

(* ================= set_list_field: what the validator decides ================= *)

Lemma map_sub_cumsum : forall t a h, mono (a :: t) -> h <= a ->
  map (fun x => x - h) (a :: t) = cumsum_from (a - h) (diffs (a :: t)).
Proof.
  induction t as [|b t IH]; intros a h Hm Hh; [reflexivity|].
  destruct Hm as [Hab Hm]. rewrite diffs_cons2, cumsum_from_cons.
  change (map (fun x => x - h) (a :: b :: t)) with ((a - h) :: map (fun x => x - h) (b :: t)).
  rewrite (IH b h Hm) by lia. f_equal. f_equal. lia.
Qed.

Lemma rebase_cumsum o : mono o -> o <> [] -> rebase o = cumsum_from 0 (diffs o).
Proof.
  intros Hm Hne. destruct o as [|a t]; [congruence|]. unfold rebase. cbn [hd].
  rewrite (map_sub_cumsum t a a Hm) by lia. rewrite Nat.sub_diag. reflexivity.
Qed.

Lemma rebase_eq_iff o1 o2 : mono o1 -> mono o2 -> o1 <> [] -> o2 <> [] ->
  (rebase o1 = rebase o2 <-> diffs o1 = diffs o2).
Proof.
  intros H1 H2 N1 N2. split; intro E.
  - rewrite <- (diffs_rebase o1 H1), <- (diffs_rebase o2 H2), E. reflexivity.
  - rewrite (rebase_cumsum o1 H1 N1), (rebase_cumsum o2 H2 N2), E. reflexivity.
Qed.

Lemma bool_eq_iff (a b : bool) : (a = true <-> b = true) -> a = b.
Proof. destruct a, b; intros [H1 H2]; try reflexivity; [symmetry; apply H1; reflexivity|apply H2; reflexivity]. Qed.

Lemma nat_list_eqb_iff (a b : list nat) : list_eqb Nat.eqb a b = true <-> a = b.
Proof. apply (list_eqb_spec Nat.eqb Nat.eqb_eq). Qed.

Lemma list_eqb_app (a a' b b' : list nat) : length a = length a' ->
  list_eqb Nat.eqb (a ++ b) (a' ++ b') = list_eqb Nat.eqb a a' && list_eqb Nat.eqb b b'.
Proof.
  revert a'. induction a as [|x a IH]; intros [|y a'] H; simpl in H; try discriminate; [reflexivity|].
  cbn [app list_eqb]. rewrite IH by lia. apply andb_assoc.
Qed.

Definition only_b (sch : schema) (nm : string) : bool :=
  match sch with [nt] => String.eqb (fst nt) nm | _ => false end.

Definition chunk_lens (c : schunk) : list nat := map (@length val) (nth 0 (chunk_cols c) []).

Lemma chunk_lens_first sch c f0 t : chunk_ok sch c -> sfields c = f0 :: t ->
  chunk_lens c = diffs (offs (farr f0)) /\ mono (offs (farr f0)) /\ length (offs (farr f0)) = S (sc_len c).
Proof.
  intros Hok Ef.
  assert (Hf0 : field_ok (svalid c) (farr f0)) by (apply (chunk_field_ok sch c f0 Hok); rewrite Ef; left; reflexivity).
  unfold chunk_lens, chunk_cols. rewrite Ef. cbn [map nth]. split; [apply field_rows_lengths, Hf0|].
  destruct Hf0 as (Hw & _). apply wf_larr_b_spec in Hw as (Ho & _ & Hm & _). split; [exact Hm|exact Ho].
Qed.

Lemma length_chunk_lens sch c : sch <> [] -> chunk_ok sch c -> length (chunk_lens c) = sc_len c.
Proof.
  intros Hne Hok. pose proof Hok as (Hwf & _).
  destruct (chunk_first_field sch c Hne Hwf) as (f0 & t & Ef).
  destruct (chunk_lens_first sch c f0 t Hok Ef) as (E & _ & Hl). rewrite E.
  unfold diffs. rewrite map_length, length_adj, Hl. lia.
Qed.

Lemma same_offsets_set_chunk sch nm ty v c s : sch <> [] -> chunk_ok sch c ->
  mono (offs (la_slice s (s + sc_len c) v)) -> offs (la_slice s (s + sc_len c) v) <> [] ->
  same_offsets_b (set_chunk nm ty v c s)
  = only_b sch nm || list_eqb Nat.eqb (diffs (offs (la_slice s (s + sc_len c) v))) (chunk_lens c).
Proof.
  intros Hne Hok Hmn Hnn. pose proof Hok as (Hwf & Hso & _).
  destruct (chunk_first_field sch c Hne Hwf) as (f0 & t & Ef).
  destruct (chunk_lens_first sch c f0 t Hok Ef) as (El & Hm0 & Hl0).
  assert (Hn0 : offs (farr f0) <> []) by (intro E; rewrite E in Hl0; discriminate).
  pose proof (chunk_schema _ _ Hwf) as Hs. unfold sc_schema in Hs. rewrite Ef in Hs. cbn [map] in Hs.
  rewrite El. rewrite set_chunk_eq. unfold same_offsets_b. cbn [sfields]. rewrite Ef.
  unfold newfield. cbn [upsert_field fname].
  set (new := la_slice s (s + sc_len c) v) in *.
  assert (Hold : forall f, In f t -> rebase (offs (farr f)) = rebase (offs (farr f0))).
  { intros f Hf. apply (same_offsets_spec c f0 t f Ef Hso). rewrite Ef. right. exact Hf. }
  destruct (String.eqb (fname f0) nm) eqn:En.
  - (* the first field is replaced *)
    destruct t as [|g t'].
    + subst sch. cbn [only_b fst map]. rewrite En. reflexivity.
    + assert (Ho : only_b sch nm = false) by (subst sch; reflexivity). rewrite Ho. cbn [orb].
      apply bool_eq_iff. rewrite nat_list_eqb_iff, forallb_forall. cbn [farr]. split.
      * intro H. specialize (H g (or_introl eq_refl)). apply nat_list_eqb_iff in H.
        apply (rebase_eq_iff _ _ Hmn Hm0 Hnn Hn0). rewrite H. apply Hold. left. reflexivity.
      * intros H f Hf. apply nat_list_eqb_iff. rewrite (Hold f Hf).
        apply (rebase_eq_iff _ _ Hmn Hm0 Hnn Hn0). exact H.
  - (* the first field stays *)
    assert (Ho : only_b sch nm = false).
    { subst sch. cbn [only_b]. destruct (map (fun f => (fname f, fty f)) t); [cbn [fst]; exact En|reflexivity]. }
    rewrite Ho. cbn [orb].
    rewrite forallb_upsert_eq.
    + cbn [farr]. apply bool_eq_iff. rewrite !nat_list_eqb_iff.
      rewrite <- (rebase_eq_iff _ _ Hmn Hm0 Hnn Hn0). split; intro H; symmetry; exact H.
    + apply forallb_forall. intros f Hf. apply nat_list_eqb_iff. symmetry. apply Hold, Hf.
Qed.

Lemma validate_set_chunks sch nm ty v : sch <> [] -> wf_larr_b (la_len v) v = true ->
  forall cs s, Forall (chunk_ok sch) cs -> s + total_len cs <= la_len v ->
  forallb same_offsets_b (set_chunks nm ty v s cs)
  = only_b sch nm || list_eqb Nat.eqb (slice s (s + total_len cs) (diffs (offs v))) (concat (map chunk_lens cs)).
Proof.
  intros Hne Hwf. induction cs as [|c cs IH]; intros s Hall Hle.
  - unfold total_len. cbn [map sum concat]. rewrite Nat.add_0_r, slice_same. cbn. rewrite orb_true_r. reflexivity.
  - inversion Hall as [|? ? Hc Hcs]; subst. rewrite set_chunks_cons. cbn [forallb].
    unfold total_len in *. cbn [map sum concat] in *.
    rewrite (IH (s + sc_len c) Hcs) by lia.
    assert (Hw : wf_larr_b (s + sc_len c - s) (la_slice s (s + sc_len c) v) = true)
      by (apply wf_la_slice with (n := la_len v); [exact Hwf|lia|lia]).
    apply wf_larr_b_spec in Hw as (Hlo & _ & Hmo & _).
    rewrite (same_offsets_set_chunk sch nm ty v c s Hne Hc Hmo)
      by (intro E; rewrite E in Hlo; discriminate).
    unfold la_slice at 1. cbn [offs]. rewrite diffs_window.
    rewrite <- (@slice_app _ (diffs (offs v)) s (s + sc_len c) (s + (sc_len c + sum (map sc_len cs)))) by lia.
    assert (Hld : length (diffs (offs v)) = la_len v).
    { apply wf_larr_b_spec in Hwf as (Ho & _). unfold diffs. rewrite map_length, length_adj, Ho. lia. }
    rewrite list_eqb_app
      by (rewrite (length_chunk_lens sch c Hne Hc), length_slice; [lia|lia|rewrite Hld; lia]).
    rewrite Nat.add_assoc. destruct (only_b sch nm); reflexivity.
Qed.

Lemma lrow_lengths_chunks p : ctype p <> [] -> lrow_lengths (abs p) = concat (map chunk_lens (chunks p)).
Proof.
  intro Hne. unfold lrow_lengths. destruct (first_col_abs p Hne) as (rest & E). rewrite E.
  rewrite concat_map_map, map_map. reflexivity.
Qed.

Lemma validate_set_result p nm ty v : inv_b p = true -> wf_larr_b (la_len v) v = true ->
  forallb (fun b => b) (lvalid v) = true -> la_len v = m_len p ->
  m_validate (set_result nm ty v p)
  = only_b (ctype p) nm
    || list_eqb Nat.eqb (map (@length val) (map (@olist val) (la_lists v))) (lrow_lengths (abs p)).
Proof.
  intros Hinv Hwf Hall Hlen. destruct (inv_b_parts p Hinv) as (_ & _ & _ & _ & (Hne & Hok)).
  change (m_validate (set_result nm ty v p)) with (forallb same_offsets_b (set_chunks nm ty v 0 (chunks p))).
  assert (Ht : total_len (chunks p) = la_len v) by (rewrite Hlen; reflexivity).
  rewrite (validate_set_chunks (ctype p) nm ty v Hne Hwf (chunks p) 0 Hok) by (rewrite Ht; simpl; lia).
  cbn [Nat.add]. rewrite Ht.
  rewrite (olists_all_valid _ _ Hwf Hall).
  pose proof Hwf as Hwf'. apply wf_larr_b_spec in Hwf' as (Ho & _ & Hm & Hl).
  rewrite (lengths_cuts _ _ Hm Hl).
  assert (Hld : length (diffs (offs v)) = la_len v).
  { unfold diffs. rewrite map_length, length_adj, Ho. lia. }
  rewrite <- Hld at 1. rewrite slice_all.
  rewrite (lrow_lengths_chunks p Hne). reflexivity.
Qed.

(* ================= set_list_field: refinement and invariant ================= *)

Definition type_ok_b (sch : schema) (nm : string) (ty : ety) : bool :=
  match schema_type sch nm with Some t => ety_eqb t ty | None => false end.

Lemma m_set_list_field_eq p nm ty v keep : chunks p <> [] ->
  m_set_list_field p nm ty v keep =
  if keep && negb (has_name (map fst (ctype p)) nm) then Err else
  if keep && negb (type_ok_b (ctype p) nm ty) then Err else
  if negb (la_len v =? m_len p) then Err else
  if m_validate (set_result nm ty v p) then Ok (m_drop_hidden (set_result nm ty v p)) else Err.
Proof.
  intro Hch. unfold m_set_list_field, m_field_names. destruct (chunks p) eqn:E; [congruence|]. rewrite <- E.
  reflexivity.
Qed.

Lemma type_check_eq sch nm ty :
  match field_pos sch nm with Some k => ety_eqb (snd (nth k sch (nm, ty))) ty | None => false end
  = type_ok_b sch nm ty.
Proof.
  unfold type_ok_b, schema_type. rewrite field_pos_fpos, find_fpos.
  destruct (fpos fst nm sch) as [k|] eqn:E; [|reflexivity].
  destruct (fpos_some fst nm sch k E) as (x & Hx & _). rewrite Hx. cbn [option_map].
  rewrite (nth_error_nth _ _ _ Hx). reflexivity.
Qed.

Lemma length_olists n v : wf_larr_b n v = true -> length (map (@olist val) (la_lists v)) = n.
Proof.
  intro Hwf. apply wf_larr_b_spec in Hwf as (Ho & Hv & _).
  rewrite map_length. unfold la_lists. rewrite map2_length; rewrite length_cuts; lia.
Qed.

Lemma op_ok_setlist p nm ty v keep : op_ok p (OSetList nm ty v keep) = true ->
  wf_larr_b (la_len v) v = true /\ forallb (fun b => b) (lvalid v) = true
  /\ (la_len v = m_len p ->
      forallb2 (fun (s : bool) d => s || (d =? 0)) (concat (map svalid (chunks p))) (diffs (offs v)) = true).
Proof.
  cbn [op_ok]. intro H. apply andb_true_iff in H as [H H3]. apply andb_true_iff in H as [H1 H2].
  repeat split; try assumption. intro E. rewrite E, Nat.eqb_refl in H3. exact H3.
Qed.

Lemma forallb2_app {A B} (f : A -> B -> bool) : forall l1 m1 l2 m2, length l1 = length m1 ->
  forallb2 f (l1 ++ l2) (m1 ++ m2) = forallb2 f l1 m1 && forallb2 f l2 m2.
Proof.
  induction l1 as [|x l1 IH]; intros [|y m1] l2 m2 H; simpl in H; try discriminate; [reflexivity|].
  cbn [app forallb2]. rewrite IH by lia. apply andb_assoc.
Qed.

Lemma forallb2_implb_alltrue : forall (sv lv : list bool), length sv = length lv ->
  forallb (fun b => b) lv = true -> forallb2 (fun s l : bool => implb s l) sv lv = true.
Proof.
  induction sv as [|s sv IH]; intros [|l lv] H Hall; simpl in *; try discriminate; [reflexivity|].
  apply andb_true_iff in Hall as [-> Hall]. rewrite IH by (try lia; exact Hall).
  destruct s; reflexivity.
Qed.

Lemma chunk_ok_set_chunk sch nm ty v c s : chunk_ok sch c ->
  wf_larr_b (la_len v) v = true -> forallb (fun b => b) (lvalid v) = true ->
  s + sc_len c <= la_len v ->
  same_offsets_b (set_chunk nm ty v c s) = true ->
  forallb2 (fun (b : bool) d => b || (d =? 0)) (svalid c) (slice s (s + sc_len c) (diffs (offs v))) = true ->
  chunk_ok (upsert_schema sch (nm, ty)) (set_chunk nm ty v c s).
Proof.
  intros Hok Hwf Hall Hle Hso Hnm. pose proof Hok as (Hwfc & _ & Hlv & Hnmc).
  assert (Hw : wf_larr_b (sc_len c) (la_slice s (s + sc_len c) v) = true).
  { pose proof (wf_la_slice (la_len v) v s (s + sc_len c) Hwf ltac:(lia) Hle) as H.
    replace (s + sc_len c - s) with (sc_len c) in H by lia. exact H. }
  unfold chunk_ok. repeat split; [| exact Hso | |].
  - unfold wf_chunk_b. rewrite set_chunk_eq. unfold sc_schema, sc_len. cbn [sfields svalid].
    rewrite sc_schema_upsert. cbn [newfield fname fty].
    pose proof (chunk_schema _ _ Hwfc) as Hs. unfold sc_schema in Hs. rewrite Hs, schema_eqb_refl. cbn [andb].
    unfold wf_chunk_b in Hwfc. apply andb_true_iff in Hwfc as [_ Hf].
    apply forallb_upsert; [exact Hf|exact Hw].
  - unfold lists_valid_b in *. rewrite set_chunk_eq. cbn [sfields svalid].
    apply forallb_upsert; [exact Hlv|]. cbn [newfield farr la_slice lvalid].
    apply forallb2_implb_alltrue; [|apply forallb_slice, Hall].
    apply wf_larr_b_spec in Hw as (_ & Hv & _). cbn [la_slice lvalid] in Hv. rewrite Hv. reflexivity.
  - unfold norm_missing_b in *. rewrite set_chunk_eq. cbn [sfields svalid].
    apply forallb_upsert; [exact Hnmc|]. cbn [newfield farr la_slice offs].
    rewrite diffs_window. exact Hnm.
Qed.

Lemma chunks_ok_set_chunks sch nm ty v : sch <> [] ->
  wf_larr_b (la_len v) v = true -> forallb (fun b => b) (lvalid v) = true ->
  forall cs s, Forall (chunk_ok sch) cs -> s + total_len cs <= la_len v ->
  forallb same_offsets_b (set_chunks nm ty v s cs) = true ->
  forallb2 (fun (b : bool) d => b || (d =? 0)) (concat (map svalid cs))
           (slice s (s + total_len cs) (diffs (offs v))) = true ->
  Forall (chunk_ok (upsert_schema sch (nm, ty))) (set_chunks nm ty v s cs).
Proof.
  intros Hne Hwf Hall. induction cs as [|c cs IH]; intros s Hok Hle Hso Hnm; [constructor|].
  inversion Hok as [|? ? Hc Hcs]; subst. rewrite set_chunks_cons in *.
  unfold total_len in *. cbn [map sum concat forallb] in *.
  apply andb_true_iff in Hso as [Hso1 Hso2].
  assert (Hld : length (diffs (offs v)) = la_len v).
  { apply wf_larr_b_spec in Hwf as (Ho & _). unfold diffs. rewrite map_length, length_adj, Ho. lia. }
  rewrite <- (@slice_app _ (diffs (offs v)) s (s + sc_len c) (s + (sc_len c + sum (map sc_len cs)))) in Hnm by lia.
  rewrite forallb2_app in Hnm by (rewrite length_slice; [unfold sc_len; lia|lia|rewrite Hld; lia]).
  apply andb_true_iff in Hnm as [Hnm1 Hnm2].
  constructor.
  - apply chunk_ok_set_chunk; try assumption. lia.
  - apply IH; try assumption; [lia|]. rewrite <- Nat.add_assoc. exact Hnm2.
Qed.

Lemma inv_set_result p nm ty v : inv_b p = true ->
  wf_larr_b (la_len v) v = true -> forallb (fun b => b) (lvalid v) = true -> la_len v = m_len p ->
  forallb2 (fun (s : bool) d => s || (d =? 0)) (concat (map svalid (chunks p))) (diffs (offs v)) = true ->
  m_validate (set_result nm ty v p) = true ->
  inv_b (set_result nm ty v p) = true.
Proof.
  intros Hinv Hwf Hall Hlen Hnm Hval. destruct (inv_b_parts p Hinv) as (_ & _ & Hch & Hnd & (Hne & Hok)).
  assert (Ht : total_len (chunks p) = la_len v) by (rewrite Hlen; reflexivity).
  assert (Hld : length (diffs (offs v)) = la_len v).
  { pose proof Hwf as Hwf'. apply wf_larr_b_spec in Hwf' as (Ho & _). unfold diffs. rewrite map_length, length_adj, Ho. lia. }
  unfold set_result. apply inv_b_intro.
  - apply upsert_schema_ne.
  - intro E. apply (f_equal (@length schunk)) in E. rewrite length_set_chunks in E.
    destruct (chunks p); [congruence|discriminate].
  - apply upsert_schema_nodup, Hnd.
  - apply chunks_ok_set_chunks; try assumption.
    + rewrite Ht. simpl. lia.
    + cbn [Nat.add]. rewrite Ht, <- Hld, slice_all. exact Hnm.
Qed.

Lemma setlist_refines p nm ty v keep : inv_b p = true -> op_ok p (OSetList nm ty v keep) = true ->
  res_map abs (m_step p (OSetList nm ty v keep)) = spec_step (abs p) (OSetList nm ty v keep).
Proof.
  intros Hinv Hop. destruct (inv_b_parts p Hinv) as (_ & _ & Hch & _ & Hok).
  destruct (op_ok_setlist p nm ty v keep Hop) as (Hwf & Hall & Hnm).
  cbn [m_step spec_step]. rewrite (m_set_list_field_eq p nm ty v keep Hch).
  unfold spec_col_set_lists. cbn [lsch abs]. change (lsch (abs p)) with (ctype p).
  change (name_in (names_of (abs p)) nm) with (has_name (map fst (ctype p)) nm).
  destruct (keep && negb (has_name (map fst (ctype p)) nm)); [reflexivity|].
  rewrite type_check_eq.
  destruct (keep && negb (type_ok_b (ctype p) nm ty)); [reflexivity|].
  rewrite (length_olists _ _ Hwf). rewrite <- len_refines.
  destruct (la_len v =? m_len p) eqn:El; [|reflexivity]. cbn [negb]. apply Nat.eqb_eq in El.
  change (match ctype p with [nt] => String.eqb (fst nt) nm | _ => false end) with (only_b (ctype p) nm).
  rewrite <- negb_orb. rewrite <- (validate_set_result p nm ty v Hinv Hwf Hall El).
  destruct (m_validate (set_result nm ty v p)) eqn:Hval; [|reflexivity].
  cbn [negb res_map].
  (* nothing is offered for a missing row (op_ok): the result is already normalised, _drop_hidden_elements keeps it *)
  rewrite (drop_hidden_id _ (inv_norm _ (inv_set_result p nm ty v Hinv Hwf Hall El (Hnm El) Hval))).
  rewrite (abs_set_result p nm ty v Hinv Hwf Hall El). reflexivity.
Qed.

Lemma setlist_inv p nm ty v keep p' : inv_b p = true -> op_ok p (OSetList nm ty v keep) = true ->
  m_step p (OSetList nm ty v keep) = Ok p' -> inv_b p' = true.
Proof.
  intros Hinv Hop H. destruct (inv_b_parts p Hinv) as (_ & _ & Hch & _ & _).
  destruct (op_ok_setlist p nm ty v keep Hop) as (Hwf & Hall & Hnm).
  cbn [m_step] in H. rewrite (m_set_list_field_eq p nm ty v keep Hch) in H.
  destruct (keep && negb (has_name (map fst (ctype p)) nm)); [discriminate|].
  destruct (keep && negb (type_ok_b (ctype p) nm ty)); [discriminate|].
  destruct (la_len v =? m_len p) eqn:El; [|discriminate]. cbn [negb] in H. apply Nat.eqb_eq in El.
  destruct (m_validate (set_result nm ty v p)) eqn:Hval; [|discriminate].
  inversion H; subst p'.
  rewrite (drop_hidden_id _ (inv_norm _ (inv_set_result p nm ty v Hinv Hwf Hall El (Hnm El) Hval))).
  apply inv_set_result; auto.
Qed.

(* ================= set_flat_field ================= *)

Lemma list_offsets_exact p : col_ok p -> chunks p <> [] ->
  m_list_offsets p = Ok (cumsum_from 0 (lrow_lengths (abs p))).
Proof.
  intros Hok Hch. pose proof (list_lengths_refines p Hok Hch) as HL. unfold spec_list_lengths in HL.
  destruct Hok as (Hne & Hall). unfold m_list_offsets.
  destruct (chunks p) as [|c [|c' cs]] eqn:Ec; [congruence| |].
  - inversion Hall as [|? ? Hc _]; subst. pose proof Hc as (Hwf & _).
    destruct (chunk_first_field (ctype p) c Hne Hwf) as (f0 & t & Ef). rewrite Ef.
    destruct (chunk_lens_first (ctype p) c f0 t Hc Ef) as (El & Hm & Hl).
    rewrite (lrow_lengths_chunks p Hne), Ec. cbn [map concat]. rewrite app_nil_r, El.
    rewrite rebase_cumsum; [reflexivity|exact Hm|]. intro E. rewrite E in Hl. discriminate.
  - rewrite HL. reflexivity.
Qed.

Lemma length_lrow_lengths p : col_ok p -> length (lrow_lengths (abs p)) = lcol_nrows (abs p).
Proof.
  intros Hok. pose proof Hok as (Hne & _).
  assert (H0 : 0 < length (ctype p)) by (destruct (ctype p); [congruence|simpl; lia]).
  rewrite <- (abs_col_lengths p 0 Hok H0), map_length. apply (length_abs_col p 0 Hok H0).
Qed.

Lemma norm_lens sch : sch <> [] -> forall cs, Forall (chunk_ok sch) cs ->
  forallb2 (fun (s : bool) d => s || (d =? 0)) (concat (map svalid cs)) (concat (map chunk_lens cs)) = true.
Proof.
  intros Hne. induction cs as [|c cs IH]; intro Hall; [reflexivity|].
  inversion Hall as [|? ? Hc Hcs]; subst. cbn [map concat].
  rewrite forallb2_app by (rewrite (length_chunk_lens sch c Hne Hc); reflexivity).
  rewrite (IH Hcs), andb_true_r.
  pose proof Hc as (Hwf & _). destruct (chunk_first_field sch c Hne Hwf) as (f0 & t & Ef).
  destruct (chunk_lens_first sch c f0 t Hc Ef) as (El & _). rewrite El.
  assert (Hf0 : field_ok (svalid c) (farr f0)) by (apply (chunk_field_ok sch c f0 Hc); rewrite Ef; left; reflexivity).
  destruct Hf0 as (_ & _ & H). exact H.
Qed.

Lemma forallb_repeat_true n : forallb (fun b : bool => b) (repeat true n) = true.
Proof. induction n; simpl; auto. Qed.

Definition flat_arr (lens : list nat) (vs : list val) : larr := la_from_arrays (cumsum_from 0 lens) vs.

Lemma la_len_flat_arr lens vs : la_len (flat_arr lens vs) = length lens.
Proof. unfold la_len, flat_arr, la_from_arrays. cbn [lvalid]. rewrite repeat_length, length_cumsum_from. lia. Qed.

Lemma wf_flat_arr lens vs : length vs = sum lens -> wf_larr_b (length lens) (flat_arr lens vs) = true.
Proof.
  intro H. unfold wf_larr_b, flat_arr, la_from_arrays. cbn [offs lvalid child].
  rewrite length_cumsum_from, repeat_length, Nat.eqb_refl.
  replace (S (length lens) - 1) with (length lens) by lia. rewrite Nat.eqb_refl.
  rewrite (proj2 (monob_spec _) (mono_cumsum_from lens 0)). cbn [andb].
  rewrite last_cumsum_from. apply Nat.leb_le. lia.
Qed.

Lemma op_ok_flat_arr p nm ty vs keep : inv_b p = true -> length vs = sum (lrow_lengths (abs p)) ->
  op_ok p (OSetList nm ty (flat_arr (lrow_lengths (abs p)) vs) keep) = true.
Proof.
  intros Hinv Hlen. destruct (inv_b_parts p Hinv) as (_ & _ & _ & _ & Hok). pose proof Hok as (Hne & Hall).
  cbn [op_ok]. rewrite la_len_flat_arr, (wf_flat_arr _ _ Hlen).
  unfold flat_arr at 1. unfold la_from_arrays. cbn [lvalid]. rewrite forallb_repeat_true. cbn [andb].
  apply orb_true_iff. right. unfold flat_arr, la_from_arrays. cbn [offs].
  rewrite diffs_cumsum, (lrow_lengths_chunks p Hne). apply (norm_lens (ctype p) Hne), Hall.
Qed.

Lemma olists_flat_arr lens vs : length vs = sum lens ->
  map (@olist val) (la_lists (flat_arr lens vs)) = cut_by lens vs.
Proof.
  intro H. rewrite (olists_all_valid (length lens)).
  - unfold flat_arr, la_from_arrays. cbn [offs child]. rewrite cuts_cumsum. reflexivity.
  - apply wf_flat_arr, H.
  - unfold flat_arr, la_from_arrays. cbn [lvalid]. apply forallb_repeat_true.
Qed.

Definition flat_values (v : flatval) (fl : nat) : list val :=
  match v with FScalar x => repeat x fl | FArray l => l end.

Lemma m_set_flat_field_eq p nm ty value keep : inv_b p = true ->
  let fl := sum (lrow_lengths (abs p)) in
  let vs := flat_values value fl in
  m_set_flat_field p nm ty value keep =
  if keep && negb (has_name (map fst (ctype p)) nm) then Err else
  if negb (length vs =? fl) then Err else
  m_set_list_field p nm ty (flat_arr (lrow_lengths (abs p)) vs) keep.
Proof.
  intros Hinv fl vs. destruct (inv_b_parts p Hinv) as (_ & _ & Hch & _ & Hok).
  unfold m_set_flat_field. unfold m_field_names at 1. destruct (chunks p) eqn:E; [congruence|]. rewrite <- E in Hch.
  destruct (keep && negb (has_name (map fst (ctype p)) nm)); [reflexivity|].
  rewrite (flat_length_refines p Hok Hch). unfold spec_flat_length. fold fl.
  change (match value with FScalar x => repeat x fl | FArray l => l end) with vs.
  destruct (length vs =? fl) eqn:El; [|reflexivity]. cbn [negb]. apply Nat.eqb_eq in El.
  rewrite (list_offsets_exact p Hok Hch). rewrite last_cumsum_from. cbn [Nat.add]. fold fl.
  rewrite El, Nat.leb_refl. reflexivity.
Qed.

Lemma spec_flat_as_lists L nm ty fv keep :
  length (lrow_lengths L) = lcol_nrows L ->
  let vs := match fv with FVScalar x => repeat x (sum (lrow_lengths L)) | FVFlat l => l end in
  length vs = sum (lrow_lengths L) ->
  spec_col_set_flat L nm ty fv keep = spec_col_set_lists L nm ty (cut_by (lrow_lengths L) vs) keep.
Proof.
  intros Hn vs Hlen. unfold spec_col_set_flat, spec_col_set_lists. fold vs.
  destruct (keep && negb (name_in (names_of L) nm)); [reflexivity|].
  destruct (keep && negb _); [reflexivity|].
  rewrite Hlen, Nat.eqb_refl. cbn [negb].
  rewrite length_cut_by, Hn, Nat.eqb_refl. cbn [negb].
  rewrite (lengths_cut_by _ _ (eq_sym Hlen)).
  rewrite (proj2 (nat_list_eqb_iff _ _) eq_refl). cbn [negb]. rewrite andb_false_r. reflexivity.
Qed.

Lemma fvalue_flat_values v fl :
  match fvalue_of v with FVScalar x => repeat x fl | FVFlat l => l end = flat_values v fl.
Proof. destruct v; reflexivity. Qed.

Lemma setflat_refines p nm ty v keep : inv_b p = true -> op_ok p (OSetFlat nm ty v keep) = true ->
  res_map abs (m_step p (OSetFlat nm ty v keep)) = spec_step (abs p) (OSetFlat nm ty v keep).
Proof.
  intros Hinv _. destruct (inv_b_parts p Hinv) as (_ & _ & Hch & _ & Hok).
  cbn [m_step spec_step]. rewrite (m_set_flat_field_eq p nm ty v keep Hinv). cbv zeta.
  set (fl := sum (lrow_lengths (abs p))). set (vs := flat_values v fl).
  destruct (length vs =? fl) eqn:El.
  - apply Nat.eqb_eq in El. cbn [negb].
    rewrite (spec_flat_as_lists (abs p) nm ty (fvalue_of v) keep (length_lrow_lengths p Hok));
      cbv zeta; rewrite fvalue_flat_values; fold fl; fold vs; [|exact El].
    destruct (keep && negb (has_name (map fst (ctype p)) nm)) eqn:En.
    + unfold spec_col_set_lists.
      change (name_in (names_of (abs p)) nm) with (has_name (map fst (ctype p)) nm). rewrite En. reflexivity.
    + pose proof (setlist_refines p nm ty (flat_arr (lrow_lengths (abs p)) vs) keep Hinv
                    (op_ok_flat_arr p nm ty vs keep Hinv El)) as H.
      cbn [m_step spec_step] in H. rewrite H. rewrite (olists_flat_arr _ _ El). reflexivity.
  - cbn [negb]. unfold spec_col_set_flat. rewrite fvalue_flat_values. fold fl. fold vs. rewrite El. cbn [negb].
    change (name_in (names_of (abs p)) nm) with (has_name (map fst (ctype p)) nm).
    destruct (keep && negb (has_name (map fst (ctype p)) nm)); [reflexivity|].
    destruct (keep && negb _); reflexivity.
Qed.

Lemma setflat_inv p nm ty v keep p' : inv_b p = true -> op_ok p (OSetFlat nm ty v keep) = true ->
  m_step p (OSetFlat nm ty v keep) = Ok p' -> inv_b p' = true.
Proof.
  intros Hinv _ H. cbn [m_step] in H. rewrite (m_set_flat_field_eq p nm ty v keep Hinv) in H. cbv zeta in H.
  set (fl := sum (lrow_lengths (abs p))) in *. set (vs := flat_values v fl) in *.
  destruct (keep && negb (has_name (map fst (ctype p)) nm)); [discriminate|].
  destruct (length vs =? fl) eqn:El; [|discriminate]. cbn [negb] in H. apply Nat.eqb_eq in El.
  apply (setlist_inv p nm ty (flat_arr (lrow_lengths (abs p)) vs) keep p' Hinv); [|exact H].
  apply op_ok_flat_arr; assumption.
Qed.

(* ================= fill_field_lists ================= *)

Lemma firstn_repeat_app {A} (x : A) r : forall n, firstn n (repeat x n ++ r) = repeat x n.
Proof. induction n as [|n IH]; simpl; [reflexivity|]. rewrite IH. reflexivity. Qed.
Lemma skipn_repeat_app {A} (x : A) r : forall n, skipn n (repeat x n ++ r) = r.
Proof. induction n as [|n IH]; simpl; [reflexivity|]. exact IH. Qed.

Lemma cut_by_flat_repeat : forall (vs : list val) ls, length vs = length ls ->
  cut_by ls (flat_repeat vs ls) = map2 (fun v n => repeat v n) vs ls.
Proof.
  induction vs as [|x vs IH]; intros [|n ls] H; simpl in H; try discriminate; [reflexivity|].
  cbn [flat_repeat cut_by]. rewrite map2_cons.
  rewrite firstn_repeat_app, skipn_repeat_app, IH by lia. reflexivity.
Qed.

Lemma m_fill_field_lists_eq p nm ty vs keep : inv_b p = true ->
  m_fill_field_lists p nm ty vs keep =
  if negb (length vs =? m_len p) then Err else
  m_set_flat_field p nm ty (FArray (flat_repeat vs (lrow_lengths (abs p)))) keep.
Proof.
  intro Hinv. destruct (inv_b_parts p Hinv) as (_ & _ & Hch & _ & Hok).
  unfold m_fill_field_lists. rewrite (list_lengths_refines p Hok Hch). reflexivity.
Qed.

(* COUNTEREXAMPLE to fill_refines as originally stated (no premise on the element type):
   with keep_dtype = true and an existing field of another element type the model refuses
   (m_set_list_field's dtype test) while spec_col_fill has no such test.

   Definition p0 : chunked :=
     {| ctype := [("a", TI64)];
        chunks := [ {| svalid := [true];
                       sfields := [ {| fname := "a"; fty := TI64;
                                       farr := {| offs := [0;1]; lvalid := [true]; child := [VInt 1] |} |} ] |} ] |}.
   Eval vm_compute in (inv_b p0, op_ok p0 (OFill "a" TF64 [VInt 5] true)).
     = (true, true)
   Eval vm_compute in (res_map abs (m_step p0 (OFill "a" TF64 [VInt 5] true))).
     = Err
   Eval vm_compute in (spec_step (abs p0) (OFill "a" TF64 [VInt 5] true)).
     = Ok {| lsch := [("a", TF64)]; lvalidity := [true]; lcols := [[[VInt 5]]] |}

   Repair: the extra premise fill_type_cond p o = true — when keep_dtype is set and the field
   exists, the offered element type is the field's element type. *)
Definition fill_type_cond (p : chunked) (o : aop) : bool :=
  match o with
  | OFill nm ty vs keep =>
      negb keep || match schema_type (ctype p) nm with Some t => ety_eqb t ty | None => true end
  | _ => true
  end.

Lemma fill_type_ok p nm ty vs keep : fill_type_cond p (OFill nm ty vs keep) = true ->
  keep && negb (has_name (map fst (ctype p)) nm) = false ->
  keep && negb (type_ok_b (ctype p) nm ty) = false.
Proof.
  cbn [fill_type_cond]. intros Hc Hn. destruct keep; [|reflexivity]. cbn [negb orb andb] in *.
  apply negb_false_iff in Hn. apply negb_false_iff. unfold type_ok_b.
  unfold has_name in Hn. rewrite fpos_has in Hn. unfold schema_type in *. rewrite find_fpos in *.
  destruct (fpos fst nm (ctype p)) as [k|] eqn:E; [|discriminate].
  destruct (fpos_some fst nm (ctype p) k E) as (x & Hx & _). rewrite Hx in *. exact Hc.
Qed.

Lemma fill_refines p nm ty vs keep : inv_b p = true -> op_ok p (OFill nm ty vs keep) = true ->
  fill_type_cond p (OFill nm ty vs keep) = true ->
  res_map abs (m_step p (OFill nm ty vs keep)) = spec_step (abs p) (OFill nm ty vs keep).
Proof.
  intros Hinv _ Hcond. destruct (inv_b_parts p Hinv) as (_ & _ & Hch & _ & Hok).
  cbn [m_step spec_step]. rewrite (m_fill_field_lists_eq p nm ty vs keep Hinv).
  unfold spec_col_fill. rewrite len_refines. unfold spec_len.
  change (name_in (names_of (abs p)) nm) with (has_name (map fst (ctype p)) nm).
  destruct (length vs =? lcol_nrows (abs p)) eqn:El; cbn [negb].
  - apply Nat.eqb_eq in El.
    pose proof (setflat_refines p nm ty (FArray (flat_repeat vs (lrow_lengths (abs p)))) keep Hinv eq_refl) as H.
    cbn [m_step spec_step] in H. rewrite H. clear H.
    unfold spec_col_set_flat. cbn [fvalue_of].
    change (name_in (names_of (abs p)) nm) with (has_name (map fst (ctype p)) nm).
    destruct (keep && negb (has_name (map fst (ctype p)) nm)) eqn:En; [reflexivity|].
    cbn [lsch abs]. change (lsch (abs p)) with (ctype p). rewrite type_check_eq.
    rewrite (fill_type_ok p nm ty vs keep Hcond En).
    assert (Hl : length vs = length (lrow_lengths (abs p))) by (rewrite (length_lrow_lengths p Hok); exact El).
    rewrite (length_flat_repeat vs (lrow_lengths (abs p)) Hl), Nat.eqb_refl. cbn [negb].
    unfold spec_cut_flat, spec_fill. rewrite (cut_by_flat_repeat vs _ Hl). reflexivity.
  - destruct (keep && negb (has_name (map fst (ctype p)) nm)); reflexivity.
Qed.

Lemma fill_inv p nm ty vs keep p' : inv_b p = true -> op_ok p (OFill nm ty vs keep) = true ->
  m_step p (OFill nm ty vs keep) = Ok p' -> inv_b p' = true.
Proof.
  intros Hinv _ H. cbn [m_step] in H. rewrite (m_fill_field_lists_eq p nm ty vs keep Hinv) in H.
  destruct (length vs =? m_len p); [|discriminate]. cbn [negb] in H.
  apply (setflat_inv p nm ty (FArray (flat_repeat vs (lrow_lengths (abs p)))) keep p' Hinv eq_refl H).
Qed.

(* ================= set_list_field normalises (repair "a missing row holds nothing") ================= *)

Lemma set_chunk_shape sch nm ty v c s :
  wf_chunk_b sch c = true -> wf_larr_b (la_len v) v = true -> s + sc_len c <= la_len v ->
  wf_chunk_b (upsert_schema sch (nm, ty)) (set_chunk nm ty v c s) = true.
Proof.
  intros Hwfc Hwf Hle.
  assert (Hw : wf_larr_b (sc_len c) (la_slice s (s + sc_len c) v) = true).
  { pose proof (wf_la_slice (la_len v) v s (s + sc_len c) Hwf ltac:(lia) Hle) as H.
    replace (s + sc_len c - s) with (sc_len c) in H by lia. exact H. }
  unfold wf_chunk_b. rewrite set_chunk_eq. unfold sc_schema, sc_len. cbn [sfields svalid].
  rewrite sc_schema_upsert. cbn [newfield fname fty].
  pose proof (chunk_schema _ _ Hwfc) as Hs. unfold sc_schema in Hs. rewrite Hs, schema_eqb_refl. cbn [andb].
  unfold wf_chunk_b in Hwfc. apply andb_true_iff in Hwfc as [_ Hf].
  apply forallb_upsert; [exact Hf|exact Hw].
Qed.

Lemma set_chunks_shape sch nm ty v : wf_larr_b (la_len v) v = true ->
  forall cs s, (forall c, In c cs -> wf_chunk_b sch c = true) -> s + total_len cs <= la_len v ->
  forall c', In c' (set_chunks nm ty v s cs) -> wf_chunk_b (upsert_schema sch (nm, ty)) c' = true.
Proof.
  intros Hwf. induction cs as [|c cs IH]; intros s Hall Hle c' Hin; [destruct Hin|].
  rewrite set_chunks_cons in Hin. unfold total_len in *. cbn [map sum] in *.
  destruct Hin as [<-|Hin].
  - apply set_chunk_shape; [apply Hall; left; reflexivity|exact Hwf|lia].
  - apply (IH (s + sc_len c)); [intros c0 Hc0; apply Hall; right; exact Hc0|lia|exact Hin].
Qed.

Lemma set_chunks_valid nm ty v :
  forall cs s, (forall c, In c cs -> lists_valid_b c = true) -> s + total_len cs <= la_len v ->
  forallb2 (fun s l : bool => implb s l) (concat (map svalid cs)) (slice s (s + total_len cs) (lvalid v)) = true ->
  forall c', In c' (set_chunks nm ty v s cs) -> lists_valid_b c' = true.
Proof.
  induction cs as [|c cs IH]; intros s Hall Hle Ho c' Hin; [destruct Hin|].
  rewrite set_chunks_cons in Hin. unfold total_len in *. cbn [map sum concat] in *.
  rewrite <- (@slice_app _ (lvalid v) s (s + sc_len c) (s + (sc_len c + sum (map sc_len cs)))) in Ho by lia.
  rewrite forallb2_app in Ho by (rewrite length_slice; [unfold sc_len; lia|lia|unfold la_len in Hle; lia]).
  apply andb_true_iff in Ho as [Ho1 Ho2].
  destruct Hin as [<-|Hin].
  - pose proof (Hall c (or_introl eq_refl)) as Hlv.
    unfold lists_valid_b in *. rewrite set_chunk_eq. cbn [sfields svalid].
    apply forallb_upsert; [exact Hlv|]. cbn [newfield farr la_slice lvalid]. exact Ho1.
  - apply (IH (s + sc_len c)); try assumption.
    + intros c0 Hc0. apply Hall. right. exact Hc0.
    + lia.
    + rewrite <- Nat.add_assoc. exact Ho2.
Qed.

(* what set_list_field returns when it accepts *)
Lemma set_list_field_ok p nm ty v keep q : m_set_list_field p nm ty v keep = Ok q ->
  chunks p <> [] /\ la_len v = m_len p /\ m_validate (set_result nm ty v p) = true
  /\ q = m_drop_hidden (set_result nm ty v p).
Proof.
  intros H.
  assert (Hch : chunks p <> []).
  { intro E. unfold m_set_list_field, m_field_names in H. rewrite E in H. discriminate. }
  rewrite (m_set_list_field_eq p nm ty v keep Hch) in H.
  destruct (keep && negb (has_name (map fst (ctype p)) nm)); [discriminate|].
  destruct (keep && negb (type_ok_b (ctype p) nm ty)); [discriminate|].
  destruct (la_len v =? m_len p) eqn:El; [|discriminate]. cbn [negb] in H. apply Nat.eqb_eq in El.
  destruct (m_validate (set_result nm ty v p)) eqn:Hval; [|discriminate].
  inversion H. auto.
Qed.

Lemma set_result_chunks p nm ty v : chunks p <> [] -> chunks (set_result nm ty v p) <> [].
Proof.
  intros Hch. unfold set_result. cbn [chunks]. intro E. apply (f_equal (@length schunk)) in E.
  rewrite length_set_chunks in E. destruct (chunks p); [congruence|discriminate].
Qed.

(* N3 for set_list_field: whatever the column hides under its missing rows and whatever the offered array offers for
   them (valid lists with elements included), the accepted result holds nothing under its missing rows.  Premises: the
   chunks of the column have the declared schema (part of wf_b), the offered array is a valid Arrow list array (lengths of
   offsets and validity, offsets monotone and within the values: not checked by the library, guaranteed by pyarrow). *)
Lemma set_list_field_normalises_gen p nm ty v keep q :
  (forall c, In c (chunks p) -> wf_chunk_b (ctype p) c = true) ->
  wf_larr_b (la_len v) v = true ->
  m_set_list_field p nm ty v keep = Ok q ->
  norm_missing_all_b q = true /\ chunks q <> [].
Proof.
  intros Hc Hwf H. destruct (set_list_field_ok p nm ty v keep q H) as (Hch & El & Hval & ->).
  assert (Ht : total_len (chunks p) = la_len v) by (rewrite El; reflexivity).
  split; [|apply drop_hidden_chunks, set_result_chunks, Hch].
  apply drop_hidden_norm_gen. intros c' Hin. split.
  - apply (set_chunks_shape (ctype p) nm ty v Hwf (chunks p) 0 Hc); [rewrite Ht; simpl; lia|exact Hin].
  - unfold m_validate, m_validate_chunk in Hval. rewrite forallb_forall in Hval. apply (Hval c' Hin).
Qed.

Theorem set_list_field_normalises p nm ty v keep q :
  wf_b p = true -> wf_larr_b (la_len v) v = true ->
  m_set_list_field p nm ty v keep = Ok q ->
  norm_missing_all_b q = true /\ chunks q <> [].
Proof.
  intros Hwfp. apply set_list_field_normalises_gen. intros c Hin.
  apply wf_b_spec in Hwfp as [_ Hc]. apply (Hc c Hin).
Qed.

(* if moreover every PRESENT row is offered a list (not a null), the result is well-formed (lists_valid_b asks just that),
   and with distinct field names it satisfies the whole invariant; the logical column is that of the rebuilt column *)
Theorem set_list_field_sound p nm ty v keep q :
  wf_b p = true -> wf_larr_b (la_len v) v = true ->
  forallb2 (fun s l : bool => implb s l) (concat (map svalid (chunks p))) (lvalid v) = true ->
  m_set_list_field p nm ty v keep = Ok q ->
  wf_b q = true /\ norm_missing_all_b q = true /\ chunks q <> []
  /\ abs q = abs (set_result nm ty v p)
  /\ (nodupb (map fst (ctype p)) = true -> inv_b q = true).
Proof.
  intros Hwfp Hwf Ho H. destruct (set_list_field_ok p nm ty v keep q H) as (Hch & El & Hval & ->).
  pose proof (wf_b_spec p Hwfp) as [Hne Hc].
  assert (Ht : total_len (chunks p) = la_len v) by (rewrite El; reflexivity).
  assert (Hwfn : wf_b (set_result nm ty v p) = true).
  { unfold wf_b. cbn [ctype set_result]. apply andb_true_iff. split.
    - pose proof (upsert_schema_ne (ctype p) (nm, ty)) as Hn.
      destruct (upsert_schema (ctype p) (nm, ty)); [congruence|reflexivity].
    - apply forallb_forall. intros c' Hin. cbn [chunks set_result] in Hin.
      rewrite (set_chunks_shape (ctype p) nm ty v Hwf (chunks p) 0 (fun c Hc' => proj1 (Hc c Hc'))
                 ltac:(rewrite Ht; simpl; lia) c' Hin).
      unfold m_validate, m_validate_chunk in Hval. rewrite forallb_forall in Hval. rewrite (Hval c' Hin).
      rewrite (set_chunks_valid nm ty v (chunks p) 0 (fun c Hc' => proj2 (proj2 (Hc c Hc')))
                 ltac:(rewrite Ht; simpl; lia)); [reflexivity| |exact Hin].
      cbn [Nat.add]. rewrite Ht. unfold la_len. rewrite slice_all. exact Ho. }
  destruct (drop_hidden_sound _ Hwfn) as (R1 & R2 & R3 & R4).
  pose proof (set_result_chunks p nm ty v Hch) as Hchn.
  repeat split; try assumption; [apply R4, Hchn|].
  intros Hnd. apply drop_hidden_inv; try assumption.
  cbn [ctype set_result]. apply NoDup_nodupb, upsert_schema_nodup, nodupb_NoDup, Hnd.
Qed.

(* in the vocabulary of op_ok (an all-valid offered array); op_ok's third demand, that nothing is offered for a missing
   row, is no longer needed for the invariant of the result *)
Corollary set_list_field_inv_any p nm ty v keep q :
  wf_b p = true -> nodupb (map fst (ctype p)) = true ->
  wf_larr_b (la_len v) v = true -> forallb (fun b => b) (lvalid v) = true ->
  m_set_list_field p nm ty v keep = Ok q -> inv_b q = true.
Proof.
  intros Hwfp Hnd Hwf Hall H. destruct (set_list_field_ok p nm ty v keep q H) as (Hch & El & _ & _).
  apply (set_list_field_sound p nm ty v keep q Hwfp Hwf); [|exact H|exact Hnd].
  apply forallb2_implb_alltrue; [|exact Hall].
  unfold la_len, m_len, ca_len in El. rewrite El, length_concat, map_map. reflexivity.
Qed.

(* a missing row that is offered a valid non-empty list: refused as layout before the mask, now dropped *)
Definition cx_set_p : chunked :=
  {| ctype := [("a"%string, TI64)];
     chunks := [ {| svalid := [false];
                    sfields := [ {| fname := "a"%string; fty := TI64;
                                    farr := {| offs := [0; 0]; lvalid := [false]; child := [] |} |} ] |} ] |}.
Definition cx_set_v : larr := {| offs := [0; 2]; lvalid := [true]; child := [VInt 1; VInt 2] |}.
Example set_list_field_drops_offered_hidden :
  inv_b cx_set_p = true /\ wf_larr_b (la_len cx_set_v) cx_set_v = true
  /\ op_ok cx_set_p (OSetList "a" TI64 cx_set_v false) = false
  /\ exists q, m_set_list_field cx_set_p "a" TI64 cx_set_v false = Ok q /\ inv_b q = true /\ abs q = abs cx_set_p.
Proof. split; [reflexivity|]. split; [reflexivity|]. split; [reflexivity|]. eexists. repeat split; reflexivity. Qed.

Print Assumptions viewfields_refines.
Print Assumptions viewfields_inv.
Print Assumptions popfields_refines.
Print Assumptions popfields_inv.
Print Assumptions setlist_refines.
Print Assumptions setlist_inv.
Print Assumptions setflat_refines.
Print Assumptions setflat_inv.
Print Assumptions fill_refines.
Print Assumptions fill_inv.
Print Assumptions set_list_field_normalises.
Print Assumptions set_list_field_sound.
Print Assumptions set_list_field_inv_any.
