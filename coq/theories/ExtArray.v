(* ExtArray.v — model of NestedExtensionArray (series/ext_array.py), the transpositions and
   validator of series/utils.py and the read-only views of the .nest accessor
   (series/accessor.py), statement by statement, on the physical model of Arrow.v.
   Definitions only. *)
From Coq Require Import String List Arith Bool ZArith Lia.
Import ListNotations.
From NP Require Import Base Values Arrow Abs Kernels Logical.

Local Open Scope nat_scope.

(* ---------- series/utils.py ---------- *)

(* validate_struct_list_array_for_equal_lengths: offsets of every field equal the first's *)
Definition m_validate_chunk (c : schunk) : bool := same_offsets_b c.
(* NestedExtensionArray._validate *)
Definition m_validate (p : chunked) : bool := forallb m_validate_chunk (chunks p).

(* a list<struct<...>> array as pyarrow shows it: offsets window, list validity, and per
   struct field the WHOLE child values (with the child struct's validity) *)
Record lsarr := { ls_offs : list nat; ls_valid : list bool;
                  ls_svalid : list bool;                (* validity of the child structs *)
                  ls_children : list (string * ety * list val) }.

(* transpose_struct_list_array(array, validate=False) *)
Definition m_transpose_sl (c : schunk) : res lsarr :=
  match sfields c with
  | [] => Err                                             (* array.field(0) raises *)
  | f0 :: _ =>
      (* offsets relative to the first one; of every field the window of its own value buffer *)
      let o := rebase (offs (farr f0)) in
      let e := last o 0 in
      Ok {| ls_offs := o;
            ls_valid := svalid c;                      (* mask = array.is_null() *)
            ls_svalid := repeat true e;
            ls_children := map (fun f => (fname f, fty f,
                                          firstn e (skipn (hd 0 (offs (farr f))) (child (farr f)))))
                               (sc_flatten c) |}
  end.

(* python view of a list-struct array: per row, optional, per field the values of the row *)
Definition ls_rows (a : lsarr) : list (option (list (list val))) :=
  map2 (fun (w : nat * nat) (v : bool) =>
          if v then Some (map (fun k => slice (fst w) (snd w)
                                          (map2 (fun (sv : bool) x => if sv then x else VNull) (ls_svalid a) (snd k)))
                              (ls_children a))
          else None)
       (adj (ls_offs a)) (ls_valid a).

(* transpose_list_struct_array *)
Definition m_transpose_ls (a : lsarr) : schunk :=
  let flat := map (fun k => (fst k, map2 (fun (sv : bool) x => if sv then x else VNull) (ls_svalid a) (snd k)))
                  (ls_children a) in
  sc_from_arrays
    (map (fun k => {| fname := fst (fst k); fty := snd (fst k);
                      farr := la_from_arrays (ls_offs a) (snd k) |}) flat)
    (Some (map negb (ls_valid a))).

(* ---------- construction ---------- *)

(* NestedExtensionArray(values, validate) for a struct-list input *)
(* _drop_hidden_elements: "a missing row holds nothing".  A chunk in which a MISSING row still spans elements of the value
   buffers (by the offsets of the first field) is re-encoded (pc.if_else(valid, chunk, null)): afterwards every missing row
   has an empty window in every field.  Other chunks are kept as they are. *)
Definition hidden_count (c : schunk) : nat :=
  match sfields c with
  | [] => 0
  | f0 :: _ => sum (map2 (fun (sv : bool) d => if sv then 0 else d) (svalid c) (diffs (offs (farr f0))))
  end.
(* pc.if_else(valid, chunk, null): a row that is missing gets a null list in every field, whatever its lists were *)
Definition mask_rowsd (d : rowsd) : rowsd :=
  (fst d, map (fun col => map2 (fun (b : bool) (o : option (list val)) => if b then o else None) (fst d) col) (snd d)).
Definition renorm_chunk (sch : schema) (c : schunk) : list schunk :=
  if hidden_count c =? 0 then [c]
  else chunks (encode sch (mask_rowsd (decode {| ctype := sch; chunks := [c] |}))).
Definition m_drop_hidden (p : chunked) : chunked :=
  {| ctype := ctype p; chunks := flat_map (renorm_chunk (ctype p)) (chunks p) |}.

Definition m_init (p : chunked) (validate : bool) : res chunked :=
  let p := match chunks p with
           | [] => {| ctype := ctype p;
                      chunks := [ {| svalid := [];
                                     sfields := map (fun nt => {| fname := fst nt; fty := snd nt;
                                                                  farr := {| offs := [0]; lvalid := []; child := [] |} |})
                                                    (ctype p) |} ] |}
           | _ => p
           end in
  if validate then (if m_validate p then Ok (m_drop_hidden p) else Err) else Ok p.

(* ---------- summary quantities ---------- *)

Definition m_len (p : chunked) : nat := ca_len p.
Definition m_isna (p : chunked) : list bool := map negb (concat (map svalid (chunks p))).

Definition m_field_names (p : chunked) : res (list string) :=
  match chunks p with [] => Err | _ => Ok (map fst (ctype p)) end.

(* list_lengths = list_value_length(_list_array) *)
Definition m_list_lengths (p : chunked) : res (list nat) :=
  match chunks p with
  | [] => Err
  | cs =>
      fold_right (fun c acc =>
                    res_bind (m_transpose_sl c) (fun a =>
                    res_bind acc (fun t => Ok (map2 (fun d (v : bool) => if v then d else 0) (diffs (ls_offs a)) (ls_valid a) ++ t))))
                 (Ok []) cs
  end.

Definition m_flat_length (p : chunked) : res nat := res_map sum (m_list_lengths p).

Definition m_list_offsets (p : chunked) : res (list nat) :=
  match chunks p with
  | [c] => match sfields c with f0 :: _ => Ok (rebase (offs (farr f0))) | [] => Err end
  | _ => res_map (cumsum_from 0) (m_list_lengths p)
  end.

Definition m_get_list_index (p : chunked) : res (list nat) :=
  if m_len p =? 0 then Ok []
  else res_map (fun ls => flat_repeat (seq 0 (m_len p)) ls) (m_list_lengths p).

(* ---------- element access ---------- *)

(* _convert_struct_scalar_to_df applied to every element: __iter__, to_numpy *)
Definition m_rows (p : chunked) : list (option (list (list val))) :=
  let d := decode p in
  map (fun i => if nth i (fst d) false then Some (map (fun col => olist (nth i col None)) (snd d)) else None)
      (seq 0 (length (fst d))).

Definition norm_index (n : nat) (z : Z) : option nat :=
  let z' := if (z <? 0)%Z then (z + Z.of_nat n)%Z else z in
  if ((0 <=? z') && (z' <? Z.of_nat n))%Z then Some (Z.to_nat z') else None.

Definition m_getitem_int (p : chunked) (z : Z) : res (option (list (list val))) :=
  match norm_index (m_len p) z with
  | Some i => Ok (nth i (m_rows p) None)
  | None => Err
  end.

Definition m_getitem_slice (p : chunked) (start stop step : option Z) : res chunked :=
  res_map (fun pos => k_take p (map Some pos)) (py_slice_positions start stop step (m_len p)).

Definition m_getitem_mask (p : chunked) (m : list bool) : res chunked :=
  if length m =? m_len p then m_init (k_filter p m) false else Err.

Definition norm_indices (n : nat) (ix : list Z) : option (list nat) :=
  fold_right (fun z acc => match norm_index n z, acc with
                           | Some i, Some t => Some (i :: t)
                           | _, _ => None end) (Some []) ix.

Definition m_getitem_idx (p : chunked) (ix : list Z) : res chunked :=
  match ix with
  | [] => m_init {| ctype := ctype p; chunks := [] |} false
  | _ => match norm_indices (m_len p) ix with
         | Some pos => Ok (k_take p (map Some pos))
         | None => Err
         end
  end.

Definition row_rect (r : option (list (list val))) : bool :=
  match r with None => true | Some fs => all_equal_nat (map (@length val) fs) end.

(* a python-level row boxed into decoded form against a schema of k fields *)
Definition box_row (k : nat) (r : option (list (list val))) : bool * list (option (list val)) :=
  match r with
  | Some fs => (true, map Some fs)
  | None => (false, repeat None k)
  end.

Definition m_take (p : chunked) (ix : list Z) (allow_fill : bool) (fill : option (list (list val)))
  : res chunked :=
  let n := m_len p in
  if (n =? 0) && existsb (fun z => (0 <=? z)%Z) ix then Err else
  if existsb (fun z => (Z.of_nat n <=? z)%Z) ix then Err else
  if allow_fill then
    if negb (existsb (fun z => (z <? 0)%Z) ix)
    then m_init (k_take p (map (fun z => Some (Z.to_nat z)) ix)) true
    else if existsb (fun z => (z <? -1)%Z) ix then Err
    else
      let taken := k_take p (map (fun z => if (z <? 0)%Z then None else Some (Z.to_nat z)) ix) in
      match fill with
      | None => m_init taken true
      | Some fs =>
          let k := length (ctype p) in
          let frow := box_row k (Some fs) in
          let fillarr := encode (ctype p) (map (fun _ => fst frow) ix,
                                            map (fun col => map (fun _ => col) ix) (snd frow)) in
          m_init (k_if_else (map (fun z => (z <? 0)%Z) ix) fillarr taken) true
      end
  else
    match norm_indices n ix with
    | Some pos => m_init (k_take p (map Some pos)) true
    | None => Err
    end.

Definition m_concat (ps : list chunked) : res chunked :=
  match ps with
  | [] => Err
  | p0 :: _ => m_init (k_concat (ctype p0) ps) true
  end.

Definition m_copy (p : chunked) : res chunked := m_init p false.
Definition m_dropna (p : chunked) : res chunked := m_init (k_drop_null p) true.
Definition m_pickle (p : chunked) : res chunked := Ok (k_combine_chunks p).

(* ---------- element assignment ---------- *)

Inductive skey := KInt (z : Z) | KSlice (a b s : option Z) | KMask (m : list bool) | KIdx (ix : list Z).
Inductive sval := SRow (r : option (list (list val))) | SRows (rs : list (option (list (list val)))).

Definition mask_of_positions (n : nat) (pos : list nat) : list bool :=
  map (fun i => existsb (Nat.eqb i) pos) (seq 0 n).

(* stable insertion of (key, original index) pairs by key *)
Fixpoint ins_key (x : nat * nat) (l : list (nat * nat)) : list (nat * nat) :=
  match l with
  | [] => [x]
  | y :: t => if fst x <? fst y then x :: y :: t else y :: ins_key x t
  end.
Definition sort_keys (l : list (nat * nat)) : list (nat * nat) := fold_right ins_key [] l.
Fixpoint dedup_from (prev : option nat) (l : list (nat * nat)) : list (nat * nat) :=
  match l with
  | [] => []
  | x :: t =>
      match prev with
      | Some k => if fst x =? k then dedup_from prev t else x :: dedup_from (Some (fst x)) t
      | None => x :: dedup_from (Some (fst x)) t
      end
  end.
Definition dedup_keys := dedup_from None.
(* np.unique(key, return_index=True)[1]: index of the first occurrence of every distinct
   key, in ascending key order *)
Definition unique_first_index (key : list nat) : list nat :=
  map snd (dedup_keys (sort_keys (combine key (seq 0 (length key))))).

(* replace_with_mask: value_index = max(cumsum(mask) - 1, 0) *)
Fixpoint value_index_from (acc : nat) (m : list bool) : list nat :=
  match m with
  | [] => []
  | b :: t => let acc' := if b then S acc else acc in (acc' - 1) :: value_index_from acc' t
  end.

Definition rows_of_sval (cnt : nat) (v : sval) : list (option (list (list val))) :=
  match v with SRow r => repeat r cnt | SRows rs => rs end.

Definition m_setitem (p : chunked) (key : skey) (v : sval) : res chunked :=
  let n := m_len p in
  let k := length (ctype p) in
  (* key -> (mask, argsort) | done | error *)
  let prep : res (option (list bool * option (list nat))) :=
    match key with
    (* an integer or a slice becomes the array of its positions, np.arange(n)[key] *)
    | KInt z => match norm_index n z with
                | Some i => Ok (Some (mask_of_positions n [i], Some (unique_first_index [i])))
                | None => Err end
    | KSlice a b s => match py_slice_positions a b s n with
                      | Ok [] => Ok None
                      | Ok pos => Ok (Some (mask_of_positions n pos, Some (unique_first_index pos)))
                      | Err => Err end
    | KMask m => if length m =? n then (if n =? 0 then Ok None else Ok (Some (m, None))) else Err
    | KIdx ix => match ix with
                 | [] => Ok None
                 | _ => match norm_indices n ix with
                        | Some pos => Ok (Some (mask_of_positions n pos, Some (unique_first_index pos)))
                        | None => Err end
                 end
    end in
  match prep with
  | Err => Err
  | Ok None => Ok p
  | Ok (Some (mask, argsort)) =>
      if count_true mask =? 0 then Ok p else
      let vrows := rows_of_sval (count_true mask) v in
      if negb (forallb row_rect vrows) then Err else
      if negb (forallb (fun r => match r with Some fs => length fs =? k | None => true end) vrows) then Err else
      let vrows' := match argsort with
                    | None => Some vrows
                    | Some ag => if forallb (fun i => i <? length vrows) ag
                                 then Some (map (fun i => nth i vrows None) ag) else None
                    end in
      match vrows' with
      | None => Err
      | Some vr =>
          let vix := value_index_from 0 mask in
          if negb (forallb (fun i => i <? length vr) vix) then Err else
          let bro := map (fun i => box_row k (nth i vr None)) vix in
          let barr := encode (ctype p) (map fst bro,
                                        map (fun j => map (fun r => nth j (snd r) None) bro) (seq 0 k)) in
          Ok (k_if_else mask barr p)
      end
  end.

(* ---------- field edits ---------- *)

Definition nodupb (l : list string) : bool :=
  (fix go (l : list string) : bool :=
     match l with [] => true | x :: t => negb (existsb (String.eqb x) t) && go t end) l.

Definition has_name (names : list string) (x : string) : bool := existsb (String.eqb x) names.

Definition select_schema (sch : schema) (fields : list string) : schema :=
  flat_map (fun nm => match find (fun nt => String.eqb (fst nt) nm) sch with Some nt => [nt] | None => [] end) fields.

Definition m_view_fields (p : chunked) (fields : list string) : res chunked :=
  match m_field_names p with
  | Err => Err
  | Ok names =>
      if negb (nodupb fields) then Err else
      if negb (forallb (has_name names) fields) then Err else
      Ok {| ctype := select_schema (ctype p) fields;
            chunks := map (fun c =>
                             sc_from_arrays
                               (flat_map (fun nm => match sc_field c nm with Some f => [f] | None => [] end) fields)
                               (Some (sc_is_null c)))
                          (chunks p) |}
  end.

(* replace the field of that name in place, or append it *)
Fixpoint upsert_field (fs : list field) (f : field) : list field :=
  match fs with
  | [] => [f]
  | g :: t => if String.eqb (fname g) (fname f) then f :: t else g :: upsert_field t f
  end.
Fixpoint upsert_schema (sch : schema) (nt : string * ety) : schema :=
  match sch with
  | [] => [nt]
  | g :: t => if String.eqb (fst g) (fst nt) then nt :: t else g :: upsert_schema t nt
  end.

(* enumerate_chunks: the row range of every chunk *)
Fixpoint chunk_starts (start : nat) (cs : list schunk) : list nat :=
  match cs with [] => [] | c :: t => start :: chunk_starts (start + sc_len c) t end.

Definition schema_type (sch : schema) (nm : string) : option ety :=
  option_map snd (find (fun nt => String.eqb (fst nt) nm) sch).

(* set_list_field(field, value, keep_dtype): value is one (combined) list array of type ty *)
Definition m_set_list_field (p : chunked) (nm : string) (ty : ety) (v : larr) (keep_dtype : bool)
  : res chunked :=
  match m_field_names p with
  | Err => Err
  | Ok names =>
      if keep_dtype && negb (has_name names nm) then Err else
      if keep_dtype && negb (match schema_type (ctype p) nm with Some t => ety_eqb t ty | None => false end)
      then Err else
      if negb (la_len v =? m_len p) then Err else
      let new :=
        {| ctype := upsert_schema (ctype p) (nm, ty);
           chunks := map2 (fun c start =>
                             sc_from_arrays
                               (upsert_field (sfields c)
                                  {| fname := nm; fty := ty; farr := la_slice start (start + sc_len c) v |})
                               (Some (sc_is_null c)))
                          (chunks p) (chunk_starts 0 (chunks p)) |} in
      if m_validate new then Ok (m_drop_hidden new) else Err
  end.

Inductive flatval := FScalar (v : val) | FArray (vs : list val).

(* set_flat_field(field, value, keep_dtype) *)
Definition m_set_flat_field (p : chunked) (nm : string) (ty : ety) (value : flatval) (keep_dtype : bool)
  : res chunked :=
  match m_field_names p with
  | Err => Err
  | Ok names =>
      if keep_dtype && negb (has_name names nm) then Err else
      match m_flat_length p with
      | Err => Err
      | Ok fl =>
          let vs := match value with FScalar x => repeat x fl | FArray l => l end in
          if negb (length vs =? fl) then Err else
          match m_list_offsets p with
          | Err => Err
          | Ok lo =>
              (* ListArray.from_arrays(values, offsets) refuses offsets beyond the values *)
              if negb (last lo 0 <=? length vs) then Err else
              m_set_list_field p nm ty (la_from_arrays lo vs) keep_dtype
          end
      end
  end.

(* fill_field_lists(field, value, keep_dtype): one value per row, repeated *)
Definition m_fill_field_lists (p : chunked) (nm : string) (ty : ety) (vs : list val) (keep_dtype : bool)
  : res chunked :=
  if negb (length vs =? m_len p) then Err else
  match m_list_lengths p with
  | Err => Err
  | Ok ls => m_set_flat_field p nm ty (FArray (flat_repeat vs ls)) keep_dtype
  end.

Definition m_pop_fields (p : chunked) (fields : list string) : res chunked :=
  match m_field_names p with
  | Err => Err
  | Ok names =>
      if negb (forallb (has_name names) fields) then Err else
      let keep := filter (fun nm => negb (has_name fields nm)) names in
      if length keep =? 0 then Err else
      Ok {| ctype := filter (fun nt => negb (has_name fields (fst nt))) (ctype p);
            chunks := map (fun c =>
                             sc_from_arrays (filter (fun f => negb (has_name fields (fname f))) (sfields c))
                                            (Some (sc_is_null c)))
                          (chunks p) |}
  end.

(* ---------- .nest accessor, read-only views (series/accessor.py) ---------- *)

(* get_flat_index as repeat counts: np.repeat(index, np.diff(list_offsets)) *)
Definition m_flat_index_counts (p : chunked) : res (list nat) := res_map diffs (m_list_offsets p).

(* to_flat(fields): (repeat counts of the index, per field the flat values); pandas refuses
   columns whose length differs from the index *)
Definition m_to_flat (p : chunked) (fields : list string) : res (list nat * list (list val)) :=
  match m_field_names p with
  | Err => Err
  | Ok names =>
      if length fields =? 0 then Err else
      if negb (forallb (has_name names) fields) then Err else
      match m_flat_index_counts p with
      | Err => Err
      | Ok cnts =>
          let cols := map (fun nm => concat (map (fun c => match sc_field c nm with
                                                          | Some f => la_flatten (farr f)
                                                          | None => [] end) (chunks p))) fields in
          if negb (length cnts =? m_len p) then Err else
          if forallb (fun col => length col =? sum cnts) cols then Ok (cnts, cols) else Err
      end
  end.

(* to_lists(fields) / get_list_series / iter_field_lists: per field, per row the optional list, WITH the validity of the
   struct (pc.struct_field): a missing row is a null list whatever its children hold *)
Definition m_to_lists (p : chunked) (fields : list string) : res (list (list (option (list val)))) :=
  match m_field_names p with
  | Err => Err
  | Ok names =>
      if length fields =? 0 then Err else
      if negb (forallb (has_name names) fields) then Err else
      Ok (map (fun nm => concat (map (fun c => match find (fun f => String.eqb (fname f) nm) (sc_flatten c) with
                                              | Some f => la_lists (farr f)
                                              | None => [] end) (chunks p))) fields)
  end.

(* ---------- Arrow interchange ---------- *)

(* chunked_list_struct_array / __arrow_array__(list type): per-row view of _list_array *)
Definition m_list_struct_rows (p : chunked) : res (list (option (list (list val)))) :=
  fold_right (fun c acc =>
                res_bind (m_transpose_sl c) (fun a =>
                res_bind acc (fun t => Ok (ls_rows a ++ t))))
             (Ok []) (chunks p).

(* NestedExtensionArray(list-struct chunked array) *)
Definition m_init_from_ls (sch : schema) (cs : list lsarr) : res chunked :=
  m_init {| ctype := sch; chunks := map m_transpose_ls cs |} false.

(* ---------- the conversion of offered values (pa.array(value, from_pandas=True)) ---------- *)
(* numpy arrays, python lists and numpy-backed pandas objects: NaN means "missing" and becomes null; Arrow arrays and
   Arrow-backed pandas objects are taken as they are (NaN stays a value) *)
Definition from_pandas (numpy_like : bool) (vs : list val) : list val := if numpy_like then map denan vs else vs.
