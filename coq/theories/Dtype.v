(* Dtype.v — NestedDtype's string name and its parser (series/dtype.py), over strings as lists of
   code points.  name: "nested<" ++ ", ".join(f"{field}: [{type}]") ++ ">".  construct_from_string:
   prefix/suffix test, split(", "), split(": ", maxsplit=1), bracket test, pa.type_for_alias (which lower-cases
   its argument).  An element type is identified by its canonical rendering str(type).  Definitions only. *)
From Coq Require Import String List Arith Bool.
Import ListNotations.
From NP Require Import Base Values.

Definition str := list nat.
Definition str_eqb : str -> str -> bool := list_eqb Nat.eqb.

(* CPython str.split(sep) for a two-character separator c1 c2: leftmost, non-overlapping *)
Fixpoint split2 (c1 c2 : nat) (s acc : str) : list str :=
  match s with
  | [] => [rev acc]
  | x :: t =>
      match t with
      | y :: t' => if (x =? c1) && (y =? c2) then rev acc :: split2 c1 c2 t' [] else split2 c1 c2 t (x :: acc)
      | [] => [rev (x :: acc)]
      end
  end.
Definition py_split (c1 c2 : nat) (s : str) : list str := split2 c1 c2 s [].

(* str.split(sep, maxsplit=1) unpacked into two names: None when the separator does not occur (ValueError) *)
Fixpoint split_first (c1 c2 : nat) (s acc : str) : option (str * str) :=
  match s with
  | x :: ((y :: t') as t) => if (x =? c1) && (y =? c2) then Some (rev acc, t') else split_first c1 c2 t (x :: acc)
  | _ => None
  end.

Fixpoint join2 (c1 c2 : nat) (ps : list str) : str :=
  match ps with
  | [] => []
  | [p] => p
  | p :: ps' => p ++ c1 :: c2 :: join2 c1 c2 ps'
  end.

Fixpoint starts_with (p s : str) : bool :=
  match p, s with
  | [], _ => true
  | a :: p', b :: s' => (a =? b) && starts_with p' s'
  | _, [] => false
  end.
Definition ends_with (p s : str) : bool := starts_with (rev p) (rev s).

Definition lower (s : str) : str := map (fun c => if (65 <=? c) && (c <=? 90) then c + 32 else c) s.

Definition COMMA := 44. Definition SPACE := 32. Definition COLON := 58.
Definition LBR := 91. Definition RBR := 93. Definition GT := 62.
Definition nested_prefix : str := [110; 101; 115; 116; 101; 100; 60].    (* "nested<" *)

Definition dfields := list (str * str).          (* field name, canonical rendering of the element type *)
Definition render_field (nt : str * str) : str := fst nt ++ [COLON; SPACE; LBR] ++ snd nt ++ [RBR].
Definition render_name (d : dfields) : str :=
  nested_prefix ++ join2 COMMA SPACE (map render_field d) ++ [GT].

(* pa.type_for_alias on a table (alias key -> canonical rendering): case-insensitive lookup *)
Definition alias_of (table : list (str * str)) (s : str) : option str :=
  option_map snd (find (fun kv => str_eqb (fst kv) (lower s)) table).

(* dict(...) then from_fields: a repeated name keeps its first position and takes the last value *)
Fixpoint dict_set (d : dfields) (k v : str) : dfields :=
  match d with
  | [] => [(k, v)]
  | (k', v') :: t => if str_eqb k' k then (k', v) :: t else (k', v') :: dict_set t k v
  end.

Definition parse_field (table : list (str * str)) (fs : str) : res (str * str) :=
  match split_first COLON SPACE fs [] with
  | None => Err
  | Some (nm, ft) =>
      if starts_with [LBR] ft && ends_with [RBR] ft then
        match alias_of table (removelast (tl ft)) with
        | Some t => Ok (nm, t)
        | None => Err
        end
      else Err
  end.

Definition parse_name (table : list (str * str)) (s : str) : res dfields :=
  if starts_with nested_prefix s && ends_with [GT] s then
    let body := removelast (skipn (length nested_prefix) s) in
    fold_left (fun acc fs => res_bind acc (fun d => res_bind (parse_field table fs) (fun nt => Ok (dict_set d (fst nt) (snd nt)))))
              (py_split COMMA SPACE body) (Ok [])
  else Err.

(* side conditions, as booleans *)
Fixpoint has_sep (c1 c2 : nat) (s : str) : bool :=
  match s with
  | x :: ((y :: _) as t) => ((x =? c1) && (y =? c2)) || has_sep c1 c2 t
  | _ => false
  end.
Fixpoint names_distinct (l : list str) : bool :=
  match l with [] => true | x :: t => negb (existsb (str_eqb x) t) && names_distinct t end.
(* a field name that the name format can carry: none of the separators inside *)
Definition name_ok (n : str) : bool := negb (has_sep COMMA SPACE n) && negb (has_sep COLON SPACE n).
(* an element type whose rendering the parser accepts: no ", " inside, and an alias of itself *)
Definition type_simple (table : list (str * str)) (t : str) : bool :=
  negb (has_sep COMMA SPACE t) && match alias_of table t with Some c => str_eqb c t | None => false end.
Definition dtype_ok (table : list (str * str)) (d : dfields) : bool :=
  negb (length d =? 0) && names_distinct (map fst d) && forallb name_ok (map fst d) && forallb (type_simple table) (map snd d).
