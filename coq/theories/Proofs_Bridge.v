(* Proofs_Bridge.v — the frame-level views are the C03 views of the logical column; pack_lists is layout independent. *)
From Coq Require Import String List Arith Bool ZArith Lia.
Import ListNotations.
From NP Require Import Base Values Arrow Abs Kernels Logical ExtArray Codec Steps Frame Bridge Proofs_Views Proofs_Codec.

(* a well-formed logical column with at least one field *)
Definition lcol_ok (L : lcol) : Prop := lcol_wf_b L = true /\ lcols L <> [].

(* ---------- helpers: generic list facts ---------- *)

Lemma nth_map_lt {A B} (f : A -> B) (l : list A) (k : nat) (d : B) (d' : A) :
  k < length l -> nth k (map f l) d = f (nth k l d').
Proof.
  intros H. rewrite (nth_indep _ d (f d')) by (rewrite map_length; exact H). apply map_nth.
Qed.

Lemma forallb2_nth {A B} (f : A -> B -> bool) (da : A) (db : B) : forall l m i,
  forallb2 f l m = true -> i < length l -> f (nth i l da) (nth i m db) = true.
Proof.
  induction l as [|x l IH]; intros [|y m] i H Hi; cbn [forallb2 length] in *; try discriminate; try lia.
  apply andb_true_iff in H as [Ha H]. destruct i as [|i]; [exact Ha|]. cbn [nth]. apply IH; [exact H|lia].
Qed.

Lemma map_flat_repeat {A B} (f : A -> B) : forall vs cs,
  map f (flat_repeat vs cs) = flat_repeat (map f vs) cs.
Proof.
  induction vs as [|v vs IH]; intros [|c cs]; cbn [flat_repeat map]; try reflexivity.
  rewrite map_app, IH. f_equal. induction c as [|c IHc]; [reflexivity|]. cbn [repeat map]. rewrite IHc. reflexivity.
Qed.

(* ---------- helpers: transpose_row ---------- *)

Lemma length_transpose_row fs : length (transpose_row fs) = length (hd [] fs).
Proof. destruct fs as [|f0 t]; [reflexivity|]. unfold transpose_row. rewrite map_length, seq_length. reflexivity. Qed.

Lemma transpose_row_width fs : Forall (fun rc : record => length rc = length fs) (transpose_row fs).
Proof.
  destruct fs as [|f0 t]; [constructor|]. unfold transpose_row. apply Forall_forall. intros rc Hin.
  apply in_map_iff in Hin as (j & <- & _). apply map_length.
Qed.

Lemma transpose_row_field fs k : k < length fs ->
  (forall f, In f fs -> length f = length (hd [] fs)) ->
  map (fun r : record => nth k r VNull) (transpose_row fs) = nth k fs [].
Proof.
  intros Hk Hlen. destruct fs as [|f0 t]; [cbn [length] in Hk; lia|].
  unfold transpose_row. rewrite map_map.
  assert (Hl : length (nth k (f0 :: t) []) = length f0) by (apply (Hlen (nth k (f0 :: t) [])), nth_In, Hk).
  rewrite <- Hl.
  etransitivity; [|apply (map_nth_seq_id VNull)].
  apply map_ext. intros j.
  rewrite (nth_map_lt (fun col : list val => nth j col VNull) (f0 :: t) k VNull []) by exact Hk. reflexivity.
Qed.

(* ---------- helpers: the rows of nrows_of, by position ---------- *)

Definition nrow_at (L : lcol) (i : nat) : nrow :=
  if nth i (lvalidity L) false then Some (transpose_row (map (fun col => nth i col []) (lcols L))) else None.

Lemma nrows_of_seq L : nrows_of L = map (nrow_at L) (seq 0 (lcol_nrows L)).
Proof.
  unfold nrows_of, rows_of. rewrite map_map. apply map_ext. intros i. unfold nrow_at.
  destruct (nth i (lvalidity L) false); reflexivity.
Qed.

Lemma nth_nrows_of L i : i < lcol_nrows L -> nth i (nrows_of L) None = nrow_at L i.
Proof.
  intros H. rewrite nrows_of_seq.
  rewrite (nth_map_lt (nrow_at L) (seq 0 (lcol_nrows L)) i None 0) by (rewrite seq_length; exact H).
  rewrite seq_nth by exact H. reflexivity.
Qed.

(* ---------- helpers: what logical well-formedness says ---------- *)

Lemma lcol_wf_spec L : lcol_wf_b L = true ->
  length (lsch L) = length (lcols L) /\
  (forall col, In col (lcols L) -> length col = length (lvalidity L)) /\
  (forall col, In col (lcols L) -> map (@length val) col = lrow_lengths L) /\
  (forall col, In col (lcols L) ->
     forallb2 (fun (b : bool) (l : list val) => b || (length l =? 0)) (lvalidity L) col = true).
Proof.
  unfold lcol_wf_b. rewrite !andb_true_iff, Nat.eqb_eq, !forallb_forall. intros [[[H1 H2] H3] H4].
  split; [exact H1|]. split; [|split].
  - intros col Hc. apply Nat.eqb_eq, H2, Hc.
  - intros col Hc. apply list_eqb_nat_eq, H3, Hc.
  - intros col Hc. apply H4, Hc.
Qed.

Lemma wf_missing_empty L col i : lcol_wf_b L = true -> In col (lcols L) ->
  nth i (lvalidity L) false = false -> nth i col [] = [].
Proof.
  intros Hwf Hc Hv. apply lcol_wf_spec in Hwf as (_ & Hlen & _ & Hm).
  destruct (Nat.lt_ge_cases i (length (lvalidity L))) as [Hi|Hi].
  - pose proof (forallb2_nth _ false [] _ _ i (Hm col Hc) Hi) as H. cbn beta in H.
    rewrite Hv in H. cbn [orb] in H. apply Nat.eqb_eq in H.
    destruct (nth i col []); [reflexivity|discriminate].
  - apply nth_overflow. rewrite (Hlen col Hc). exact Hi.
Qed.

Lemma wf_row_length L col i : lcol_wf_b L = true -> In col (lcols L) ->
  length (nth i col []) = nth i (lrow_lengths L) 0.
Proof.
  intros Hwf Hc. apply lcol_wf_spec in Hwf as (_ & _ & Hr & _).
  rewrite <- (Hr col Hc). symmetry. exact (map_nth (@length val) col [] i).
Qed.

Lemma hd_row_fields L i : lcols L <> [] ->
  hd [] (map (fun col : list (list val) => nth i col []) (lcols L)) = nth i (hd [] (lcols L)) [].
Proof. destruct (lcols L); [congruence|reflexivity]. Qed.

Lemma hd_in {A} (l : list A) d : l <> [] -> In (hd d l) l.
Proof. destruct l; [congruence|left; reflexivity]. Qed.

Lemma lrow_lengths_hd L : lcols L <> [] -> lrow_lengths L = map (@length val) (hd [] (lcols L)).
Proof. unfold lrow_lengths. destruct (lcols L); [congruence|reflexivity]. Qed.

(* the number of records of row i *)
Lemma length_nrow_at L i : lcol_ok L -> length (recs (nrow_at L i)) = length (nth i (hd [] (lcols L)) []).
Proof.
  intros [Hwf Hne]. unfold nrow_at. destruct (nth i (lvalidity L) false) eqn:Ev.
  - cbn [recs]. rewrite length_transpose_row, hd_row_fields by exact Hne. reflexivity.
  - cbn [recs length]. rewrite (wf_missing_empty L _ i Hwf (hd_in _ [] Hne) Ev). reflexivity.
Qed.

(* same number of rows, same missing rows *)
Lemma nrows_length L : length (nrows_of L) = lcol_nrows L.
Proof. unfold nrows_of, rows_of. rewrite !map_length, seq_length. reflexivity. Qed.

Lemma nrows_missing L i : i < lcol_nrows L ->
  (nth i (nrows_of L) None = None <-> nth i (lvalidity L) false = false).
Proof.
  intros H. rewrite (nth_nrows_of L i H). unfold nrow_at.
  destruct (nth i (lvalidity L) false); split; intro E; try reflexivity; discriminate.
Qed.

(* the per-row lengths the frame level sees are the list lengths of C03 *)
Theorem bridge_row_lens L : lcol_ok L -> row_lens (nrows_of L) = lrow_lengths L.
Proof.
  intros Hok. pose proof Hok as [Hwf Hne].
  rewrite (lrow_lengths_hd L Hne). unfold row_lens. rewrite nrows_of_seq, map_map.
  rewrite (map_nth_seq (@length val) [] (hd [] (lcols L))).
  apply lcol_wf_spec in Hwf as (_ & Hlen & _).
  rewrite (Hlen _ (hd_in _ [] Hne)). fold (lcol_nrows L).
  apply map_ext. intros i. apply (length_nrow_at L i Hok).
Qed.

(* field k of the flat records is the flat view of field k (C03: spec_flat) *)
Theorem bridge_flat_field L k : lcol_ok L -> k < length (lcols L) ->
  flat_field k (nrows_of L) = nth k (spec_flat L) [].
Proof.
  intros Hok Hk. pose proof Hok as [Hwf Hne].
  unfold flat_field, m_flat, spec_flat.
  rewrite (nth_map_lt (@concat val) (lcols L) k [] []) by exact Hk.
  rewrite concat_map, map_map. f_equal.
  set (colk := nth k (lcols L) []).
  assert (Hin : In colk (lcols L)) by (apply nth_In, Hk).
  pose proof (lcol_wf_spec L Hwf) as (_ & Hlen & _).
  rewrite nrows_of_seq, map_map.
  etransitivity; [|apply (map_nth_seq_id [] colk)].
  rewrite (Hlen colk Hin). fold (lcol_nrows L).
  apply map_ext. intros i. unfold nrow_at.
  destruct (nth i (lvalidity L) false) eqn:Ev.
  - cbn [recs]. rewrite transpose_row_field.
    + apply (nth_map_lt (fun col : list (list val) => nth i col []) (lcols L) k [] []). exact Hk.
    + rewrite map_length. exact Hk.
    + intros f Hf. apply in_map_iff in Hf as (col & <- & Hcol).
      rewrite hd_row_fields by exact Hne.
      rewrite (wf_row_length L col i Hwf Hcol), (wf_row_length L _ i Hwf (hd_in _ [] Hne)). reflexivity.
  - cbn [recs map]. symmetry. apply (wf_missing_empty L colk i Hwf Hin Ev).
Qed.

(* the ordinal index is the positional list index of C03 *)
Theorem bridge_list_index L : lcol_ok L ->
  m_list_index (nrows_of L) = map Z.of_nat (spec_list_index L).
Proof.
  intros Hok. unfold m_list_index, spec_list_index, ordinals.
  rewrite (bridge_row_lens L Hok), nrows_length, map_flat_repeat. reflexivity.
Qed.

(* every record has one value per field *)
Theorem bridge_width L : lcol_ok L ->
  Forall (fun r => Forall (fun rc : record => length rc = length (lcols L)) (recs r)) (nrows_of L).
Proof.
  intros _. rewrite nrows_of_seq. apply Forall_forall. intros r Hr.
  apply in_map_iff in Hr as (i & <- & _). unfold nrow_at.
  destruct (nth i (lvalidity L) false); cbn [recs]; [|constructor].
  pose proof (transpose_row_width (map (fun col : list (list val) => nth i col []) (lcols L))) as H.
  rewrite map_length in H. exact H.
Qed.

(* ---------- abs p is a well-formed logical column ---------- *)

Lemma forallb2_mask_rows : forall (v : list bool) (l : list (list val)), length l = length v ->
  forallb2 (fun (b : bool) (x : list val) => b || (length x =? 0)) v (mask_rows v l) = true.
Proof.
  induction v as [|b v IH]; intros [|x l] H; cbn [length] in H; try discriminate; [reflexivity|].
  rewrite mask_rows_cons. cbn [forallb2]. rewrite IH by lia. destruct b; reflexivity.
Qed.

(* and for a physical column satisfying the invariant, abs p is such a logical column: so the frame level starts from
   exactly what the library reads from ANY layout *)
Theorem abs_is_ok p : inv_b p = true -> lcol_ok (abs p).
Proof.
  intros H. apply inv_b_spec in H as (Hwf & Hnm & _ & _).
  pose proof (wf_b_col_ok p Hwf Hnm) as Hok. pose proof Hok as [Hne Hall].
  assert (Hlc : length (lcols (abs p)) = length (ctype p))
    by (unfold abs; cbn [lcols]; rewrite map_length, seq_length; reflexivity).
  assert (Hcol : forall col, In col (lcols (abs p)) -> exists k, k < length (ctype p) /\ col = nth k (lcols (abs p)) []).
  { intros col Hin. apply (In_nth _ _ []) in Hin as (k & Hk & E). exists k. split; [lia|congruence]. }
  split.
  - unfold lcol_wf_b. rewrite !andb_true_iff. repeat split.
    + apply Nat.eqb_eq. rewrite Hlc. reflexivity.
    + apply forallb_forall. intros col Hin. destruct (Hcol col Hin) as (k & Hk & ->).
      apply Nat.eqb_eq. apply (length_abs_col p k Hok Hk).
    + apply forallb_forall. intros col Hin. destruct (Hcol col Hin) as (k & Hk & ->).
      rewrite (abs_col_lengths p k Hok Hk). apply list_eqb_nat_refl.
    + apply forallb_forall. intros col Hin.
      rewrite (abs_decode p Hwf) in Hin |- *. unfold lcol_of_dec in *. cbn [lcols lvalidity] in *.
      apply in_map_iff in Hin as (dc & <- & Hdc).
      apply forallb2_mask_rows. rewrite map_length.
      pose proof (decode_shape p Hwf) as Hs. apply dec_shape_spec in Hs as [_ Hs]. apply Hs, Hdc.
  - intros E. rewrite E in Hlc. cbn [length] in Hlc. destruct (ctype p); [congruence|discriminate].
Qed.

(* ---------- pack_lists: the same column whichever way the list columns are chunked ---------- *)
Definition lcolumn_ok (n : nat) (c : lcolumn) : bool :=
  forallb (fun l => wf_larr_b (la_len l) l && forallb (fun b => b) (lvalid l)) (snd c) && (length (column_rows c) =? n).

(* ----- helpers: offsets windows, rebase and diffs ----- *)

Lemma rebase_cumsum_gen : forall t a h, mono (a :: t) -> h <= a ->
  map (fun x => x - h) (a :: t) = cumsum_from (a - h) (diffs (a :: t)).
Proof.
  induction t as [|b t IH]; intros a h Hm Hh; [reflexivity|].
  destruct Hm as [Hab Hm].
  change (map (fun x => x - h) (a :: b :: t)) with ((a - h) :: map (fun x => x - h) (b :: t)).
  rewrite diffs_cons2, cumsum_from_cons. f_equal.
  rewrite (IH b h Hm) by lia. f_equal. lia.
Qed.

Lemma rebase_cumsum a t : mono (a :: t) -> rebase (a :: t) = cumsum_from 0 (diffs (a :: t)).
Proof.
  intros Hm. unfold rebase. cbn [hd]. rewrite (rebase_cumsum_gen t a a Hm) by lia.
  rewrite Nat.sub_diag. reflexivity.
Qed.

Lemma rebase_eq_iff o1 o2 : mono o1 -> mono o2 -> o1 <> [] -> o2 <> [] ->
  (rebase o1 = rebase o2 <-> diffs o1 = diffs o2).
Proof.
  intros M1 M2 N1 N2. split; intro E.
  - rewrite <- (diffs_rebase o1 M1), <- (diffs_rebase o2 M2), E. reflexivity.
  - destruct o1 as [|a1 t1]; [congruence|]. destruct o2 as [|a2 t2]; [congruence|].
    rewrite (rebase_cumsum a1 t1 M1), (rebase_cumsum a2 t2 M2), E. reflexivity.
Qed.

Lemma rebase_cumsum0 l : rebase (cumsum_from 0 l) = cumsum_from 0 l.
Proof.
  pose proof (mono_cumsum_from l 0) as Hm. pose proof (diffs_cumsum l 0) as Hd.
  destruct (cumsum_from_hd 0 l) as [r Hr]. rewrite Hr in *.
  rewrite (rebase_cumsum 0 r Hm), Hd. exact Hr.
Qed.

Lemma cumsum_from_inj b l1 l2 : cumsum_from b l1 = cumsum_from b l2 -> l1 = l2.
Proof. intros E. rewrite <- (diffs_cumsum l1 b), <- (diffs_cumsum l2 b), E. reflexivity. Qed.

Lemma app_inv_length {A} : forall (a b c d : list A), length a = length b -> a ++ c = b ++ d -> a = b /\ c = d.
Proof.
  induction a as [|x a IH]; intros [|y b] c d Hl E; cbn [length] in Hl; try discriminate.
  - split; [reflexivity|exact E].
  - cbn [app] in E. inversion E as [[Ex Et]]. destruct (IH b c d ltac:(lia) Et) as [-> ->]. split; reflexivity.
Qed.

Lemma forallb2_true {A B} (f : A -> B -> bool) : forall l m,
  (forall a b, In a l -> f a b = true) -> length l = length m -> forallb2 f l m = true.
Proof.
  induction l as [|x l IH]; intros [|y m] H Hl; cbn [length] in Hl; try discriminate; [reflexivity|].
  cbn [forallb2]. rewrite (H x y) by (left; reflexivity). cbn [andb].
  apply IH; [|lia]. intros a b Ha. apply H. right. exact Ha.
Qed.

Lemma forallb2_diag {A} (f : A -> A -> bool) : forall l,
  (forall a, In a l -> f a a = true) -> forallb2 f l l = true.
Proof.
  induction l as [|x l IH]; intros H; [reflexivity|]. cbn [forallb2].
  rewrite (H x) by (left; reflexivity). cbn [andb]. apply IH. intros a Ha. apply H. right. exact Ha.
Qed.

Lemma length_diffs o : length (diffs o) = length o - 1.
Proof. unfold diffs. rewrite map_length. apply length_adj. Qed.

(* ----- helpers: a list array without null lists ----- *)

Definition lok (l : larr) : Prop := wf_larr_b (la_len l) l = true /\ forallb (fun b : bool => b) (lvalid l) = true.

Lemma lok_field_ok l : lok l -> field_ok (lvalid l) l.
Proof.
  intros [Hwf Hv]. unfold field_ok. split; [exact Hwf|].
  apply wf_larr_b_spec in Hwf as (Ho & _).
  rewrite forallb_forall in Hv. split.
  - apply forallb2_diag. intros a Ha. rewrite (Hv a Ha). reflexivity.
  - apply forallb2_true.
    + intros a b Ha. rewrite (Hv a Ha). reflexivity.
    + rewrite length_diffs, Ho. unfold la_len. lia.
Qed.

Lemma lok_lens l : lok l -> dec_lens (la_lists l) = diffs (offs l).
Proof. intros H. apply (dec_lens_la_lists (lvalid l) l), lok_field_ok, H. Qed.

Lemma lok_mono l : lok l -> mono (offs l) /\ offs l <> [].
Proof.
  intros [Hwf _]. apply wf_larr_b_spec in Hwf as (Ho & _ & Hm & _). split; [exact Hm|].
  intros E. rewrite E in Ho. discriminate.
Qed.

Lemma lok_length_lists l : lok l -> length (la_lists l) = la_len l.
Proof. intros [Hwf _]. apply (length_la_lists _ _ Hwf). Qed.

Lemma lok_length_diffs l : lok l -> length (diffs (offs l)) = la_len l.
Proof. intros H. rewrite <- (lok_lens l H). unfold dec_lens. rewrite map_length. apply lok_length_lists, H. Qed.

Definition lens (c : lcolumn) : list nat := map (fun o : option (list val) => length (olist o)) (column_rows c).

Lemma lens_diffs c : Forall lok (snd c) -> lens c = concat (map (fun l => diffs (offs l)) (snd c)).
Proof.
  intros H. unfold lens, column_rows. fold (dec_lens (concat (map la_lists (snd c)))).
  rewrite dec_lens_concat. f_equal. apply map_ext_in. intros l Hl.
  rewrite Forall_forall in H. apply lok_lens, H, Hl.
Qed.

Lemma lcolumn_ok_spec n c : lcolumn_ok n c = true -> Forall lok (snd c) /\ length (column_rows c) = n.
Proof.
  unfold lcolumn_ok. rewrite andb_true_iff, Nat.eqb_eq, forallb_forall. intros [H1 H2]. split; [|exact H2].
  apply Forall_forall. intros l Hl. specialize (H1 l Hl). apply andb_true_iff in H1. exact H1.
Qed.

Lemma sum_la_len c : Forall lok (snd c) -> sum (map la_len (snd c)) = length (column_rows c).
Proof.
  intros H. unfold column_rows. rewrite length_concat, map_map. f_equal.
  apply map_ext_in. intros l Hl. rewrite Forall_forall in H. symmetry. apply lok_length_lists, H, Hl.
Qed.

(* ----- helpers: chunk-aligned columns ----- *)

Definition Dl : larr := {| offs := [0]; lvalid := []; child := [] |}.

Lemma aligned_nth_len ls ls0 i : map la_len ls0 = map la_len ls -> la_len (nth i ls Dl) = la_len (nth i ls0 Dl).
Proof.
  intros E. rewrite <- (map_nth la_len ls Dl i), <- (map_nth la_len ls0 Dl i), E. reflexivity.
Qed.

Lemma aligned_lists_iff : forall ls ls0, Forall lok ls -> Forall lok ls0 -> map la_len ls0 = map la_len ls ->
  ((forall i, i < length ls0 -> rebase (offs (nth i ls Dl)) = rebase (offs (nth i ls0 Dl)))
   <-> concat (map (fun l => diffs (offs l)) ls) = concat (map (fun l => diffs (offs l)) ls0)).
Proof.
  induction ls as [|l ls IH]; intros [|l0 ls0] F F0 E; cbn [map] in E; try discriminate.
  - split; [reflexivity|]. intros _ i Hi. cbn [length] in Hi. lia.
  - inversion F as [|? ? Hl Fl]; subst. inversion F0 as [|? ? Hl0 Fl0]; subst.
    inversion E as [[E1 E2]]. specialize (IH ls0 Fl Fl0 E2).
    destruct (lok_mono l Hl) as [M N]. destruct (lok_mono l0 Hl0) as [M0 N0].
    cbn [map concat length]. split.
    + intros H. f_equal.
      * apply (rebase_eq_iff _ _ M M0 N N0). apply (H 0). lia.
      * apply IH. intros i Hi. apply (H (S i)). lia.
    + intros H. apply app_inv_length in H as [Ha Hb].
      * intros [|i] Hi; cbn [nth].
        -- apply (rebase_eq_iff _ _ M M0 N N0). exact Ha.
        -- apply IH; [exact Hb|lia].
      * rewrite (lok_length_diffs l Hl), (lok_length_diffs l0 Hl0). congruence.
Qed.

(* ----- helpers: one struct chunk built from one list array per column ----- *)

Definition mkcf (c : lcolumn) (a : larr) : field := {| fname := fst (fst c); fty := snd (fst c); farr := a |}.
Definition pchunk (cols : list lcolumn) (G : lcolumn -> larr) : schunk :=
  sc_from_arrays (map (fun c => mkcf c (G c)) cols) None.

Lemma pchunk_same_offsets c0 t G :
  same_offsets_b (pchunk (c0 :: t) G) = true
  <-> forall c, In c (c0 :: t) -> rebase (offs (G c)) = rebase (offs (G c0)).
Proof.
  unfold pchunk, same_offsets_b, sc_from_arrays. cbn [sfields map]. rewrite forallb_map. cbn [farr mkcf].
  rewrite forallb_forall. split.
  - intros H c [<-|Hc]; [reflexivity|]. symmetry. apply list_eqb_nat_eq, H, Hc.
  - intros H c Hc. rewrite (H c (or_intror Hc)). apply list_eqb_nat_refl.
Qed.

Lemma m_pack_lists_unfold c0 t :
  m_pack_lists (c0 :: t) true =
  let cols := c0 :: t in
  let chs := if forallb (fun c => list_eqb Nat.eqb (chunk_lengths c0) (chunk_lengths c)) cols
             then map (fun i => pchunk cols (fun c => nth i (snd c) Dl)) (seq 0 (length (snd c0)))
             else map (fun i => pchunk cols (fun c => la_combine (snd c))) [0] in
  if forallb same_offsets_b chs
  then Ok {| ctype := map (fun c => (fst (fst c), snd (fst c))) cols; chunks := chs |} else Err.
Proof. reflexivity. Qed.

(* validation succeeds exactly when every column has the row lengths of the first *)
Lemma pack_validate_iff c0 t n : forallb (lcolumn_ok n) (c0 :: t) = true ->
  let cols := c0 :: t in
  let chs := if forallb (fun c => list_eqb Nat.eqb (chunk_lengths c0) (chunk_lengths c)) cols
             then map (fun i => pchunk cols (fun c => nth i (snd c) Dl)) (seq 0 (length (snd c0)))
             else map (fun i => pchunk cols (fun c => la_combine (snd c))) [0] in
  (forallb same_offsets_b chs = true <-> forall c, In c cols -> lens c = lens c0).
Proof.
  intros Hok. cbv zeta. rewrite forallb_forall in Hok.
  assert (Hlok : forall c, In c (c0 :: t) -> Forall lok (snd c)) by (intros c Hc; apply (lcolumn_ok_spec n c), Hok, Hc).
  assert (H0 : In c0 (c0 :: t)) by (left; reflexivity).
  rewrite forallb_forall.
  destruct (forallb (fun c => list_eqb Nat.eqb (chunk_lengths c0) (chunk_lengths c)) (c0 :: t)) eqn:Hal.
  - rewrite forallb_forall in Hal.
    assert (Hal' : forall c, In c (c0 :: t) -> map la_len (snd c0) = map la_len (snd c))
      by (intros c Hc; apply list_eqb_nat_eq, Hal, Hc).
    split.
    + intros H c Hc. rewrite (lens_diffs c (Hlok c Hc)), (lens_diffs c0 (Hlok c0 H0)).
      apply (aligned_lists_iff (snd c) (snd c0) (Hlok c Hc) (Hlok c0 H0) (Hal' c Hc)).
      intros i Hi.
      assert (Hi' : In (pchunk (c0 :: t) (fun c => nth i (snd c) Dl)) (map (fun i => pchunk (c0 :: t) (fun c => nth i (snd c) Dl)) (seq 0 (length (snd c0)))))
        by (apply in_map_iff; exists i; split; [reflexivity|apply in_seq; lia]).
      specialize (H _ Hi'). apply (proj1 (pchunk_same_offsets c0 t _) H c Hc).
    + intros H ch Hch. apply in_map_iff in Hch as (i & <- & Hi). apply in_seq in Hi.
      apply (proj2 (pchunk_same_offsets c0 t _)). intros c Hc.
      apply (aligned_lists_iff (snd c) (snd c0) (Hlok c Hc) (Hlok c0 H0) (Hal' c Hc)); [|lia].
      rewrite <- (lens_diffs c (Hlok c Hc)), <- (lens_diffs c0 (Hlok c0 H0)). apply H, Hc.
  - assert (Hreb : forall c, rebase (offs (la_combine (snd c))) = cumsum_from 0 (lens c)).
    { intros c. unfold la_combine, la_of_lists. cbn [offs]. apply rebase_cumsum0. }
    split.
    + intros H c Hc.
      assert (Hi' : In (pchunk (c0 :: t) (fun c => la_combine (snd c))) (map (fun i : nat => pchunk (c0 :: t) (fun c => la_combine (snd c))) [0]))
        by (left; reflexivity).
      specialize (H _ Hi'). pose proof (proj1 (pchunk_same_offsets c0 t _) H c Hc) as H'. cbn beta in H'.
      rewrite !Hreb in H'. apply (cumsum_from_inj 0), H'.
    + intros H ch Hch. apply in_map_iff in Hch as (i & <- & _).
      apply (proj2 (pchunk_same_offsets c0 t _)). intros c Hc. rewrite !Hreb, (H c Hc). reflexivity.
Qed.

(* ----- helpers: the logical column of such a family of chunks ----- *)

Lemma mask_rows_all_true : forall m (ls : list (list val)), length ls = m -> mask_rows (repeat true m) ls = ls.
Proof.
  induction m as [|m IH]; intros [|x ls] H; cbn [length] in H; try discriminate; [reflexivity|].
  cbn [repeat]. rewrite mask_rows_cons, IH by lia. reflexivity.
Qed.

Lemma concat_repeat_true {X} (g : X -> nat) : forall l,
  concat (map (fun x => repeat true (g x)) l) = repeat true (sum (map g l)).
Proof.
  induction l as [|x l IH]; [reflexivity|]. cbn [map concat sum]. rewrite IH, repeat_app. reflexivity.
Qed.

Lemma abs_family_validity sch c0 t (G : nat -> lcolumn -> larr) idxs :
  lvalidity (abs {| ctype := sch; chunks := map (fun i => pchunk (c0 :: t) (G i)) idxs |})
  = concat (map (fun i => repeat true (la_len (G i c0))) idxs).
Proof. unfold abs. cbn [lvalidity chunks]. rewrite map_map. reflexivity. Qed.

Lemma abs_family_cols sch c0 t (G : nat -> lcolumn -> larr) idxs :
  length sch = length (c0 :: t) ->
  (forall i c, In i idxs -> In c (c0 :: t) -> length (la_lists (G i c)) = la_len (G i c0)) ->
  lcols (abs {| ctype := sch; chunks := map (fun i => pchunk (c0 :: t) (G i)) idxs |})
  = map (fun c => concat (map (fun i => map (@olist val) (la_lists (G i c))) idxs)) (c0 :: t).
Proof.
  intros Hs Hlen. unfold abs. cbn [lcols ctype chunks]. rewrite Hs.
  rewrite (map_nth_seq (fun c => concat (map (fun i => map (@olist val) (la_lists (G i c))) idxs)) c0 (c0 :: t)).
  apply map_ext_in. intros k Hk. apply in_seq in Hk. rewrite map_map. f_equal.
  apply map_ext_in. intros i Hi.
  unfold pchunk, chunk_cols, sc_from_arrays. cbn [sfields svalid]. rewrite map_map.
  rewrite (nth_map_lt _ (c0 :: t) k [] c0) by lia.
  cbn [map farr mkcf]. unfold field_rows.
  apply mask_rows_all_true. rewrite map_length. apply Hlen; [exact Hi|apply nth_In; lia].
Qed.

(* rows of equal length in every column, no null lists: the packed column holds, row by row, exactly the offered lists,
   no row is missing - in the aligned branch and in the combine branch alike *)
Theorem pack_lists_abs cols n : cols <> [] ->
  forallb (lcolumn_ok n) cols = true ->
  (forall c, In c cols -> map (fun o => length (olist o)) (column_rows c) = map (fun o => length (olist o)) (column_rows (hd (EmptyString, TI64, []) cols))) ->
  exists p, m_pack_lists cols true = Ok p /\
            lvalidity (abs p) = repeat true n /\
            lcols (abs p) = map (fun c => map (@olist val) (column_rows c)) cols /\
            lsch (abs p) = map (fun c => (fst (fst c), snd (fst c))) cols.
Proof.
  intros Hne Hok Hrect. destruct cols as [|c0 t]; [congruence|]. cbn [hd] in Hrect.
  rewrite m_pack_lists_unfold. cbv zeta.
  pose proof (pack_validate_iff c0 t n Hok) as HV. cbv zeta in HV.
  rewrite (proj2 HV Hrect). clear HV.
  eexists. split; [reflexivity|].
  rewrite forallb_forall in Hok.
  assert (Hlok : forall c, In c (c0 :: t) -> Forall lok (snd c)) by (intros c Hc; apply (lcolumn_ok_spec n c), Hok, Hc).
  assert (Hn : forall c, In c (c0 :: t) -> length (column_rows c) = n) by (intros c Hc; apply (lcolumn_ok_spec n c), Hok, Hc).
  assert (H0 : In c0 (c0 :: t)) by (left; reflexivity).
  split; [|split; [|reflexivity]].
  - destruct (forallb (fun c => list_eqb Nat.eqb (chunk_lengths c0) (chunk_lengths c)) (c0 :: t)) eqn:Hal.
    + rewrite (abs_family_validity _ c0 t (fun i c => nth i (snd c) Dl)).
      rewrite <- (map_nth_seq (fun l => repeat true (la_len l)) Dl (snd c0)).
      rewrite concat_repeat_true, (sum_la_len c0 (Hlok c0 H0)), (Hn c0 H0). reflexivity.
    + rewrite (abs_family_validity _ c0 t (fun i c => la_combine (snd c))).
      cbn [map concat]. rewrite app_nil_r. f_equal.
      unfold la_combine, la_of_lists, la_len. cbn [lvalid]. rewrite map_length. apply (Hn c0 H0).
  - destruct (forallb (fun c => list_eqb Nat.eqb (chunk_lengths c0) (chunk_lengths c)) (c0 :: t)) eqn:Hal.
    + rewrite forallb_forall in Hal.
      assert (Hal' : forall c, In c (c0 :: t) -> map la_len (snd c0) = map la_len (snd c))
        by (intros c Hc; apply list_eqb_nat_eq, Hal, Hc).
      rewrite (abs_family_cols _ c0 t (fun i c => nth i (snd c) Dl)).
      * apply map_ext_in. intros c Hc.
        assert (El : length (snd c0) = length (snd c)).
        { pose proof (f_equal (@length nat) (Hal' c Hc)) as E. rewrite !map_length in E. exact E. }
        rewrite El, <- (map_nth_seq (fun l => map (@olist val) (la_lists l)) Dl (snd c)).
        unfold column_rows. rewrite concat_map, map_map. reflexivity.
      * rewrite map_length. reflexivity.
      * intros i c Hi Hc. apply in_seq in Hi.
        assert (El : length (snd c0) = length (snd c)).
        { pose proof (f_equal (@length nat) (Hal' c Hc)) as E. rewrite !map_length in E. exact E. }
        rewrite <- (aligned_nth_len (snd c) (snd c0) i (Hal' c Hc)).
        apply lok_length_lists. pose proof (Hlok c Hc) as F. rewrite Forall_forall in F. apply F, nth_In. lia.
    + rewrite (abs_family_cols _ c0 t (fun i c => la_combine (snd c))).
      * apply map_ext_in. intros c Hc. cbn [map concat]. rewrite app_nil_r.
        unfold la_combine. rewrite la_lists_of_lists. reflexivity.
      * rewrite map_length. reflexivity.
      * intros i c _ Hc. unfold la_combine. rewrite la_lists_of_lists.
        unfold la_of_lists, la_len. cbn [lvalid]. rewrite map_length.
        fold (column_rows c) (column_rows c0). rewrite (Hn c Hc), (Hn c0 H0). reflexivity.
Qed.

(* ragged list columns are refused when validating *)
Theorem pack_lists_ragged_refused cols n : cols <> [] ->
  forallb (lcolumn_ok n) cols = true ->
  (exists c, In c cols /\ map (fun o => length (olist o)) (column_rows c) <> map (fun o => length (olist o)) (column_rows (hd (EmptyString, TI64, []) cols))) ->
  m_pack_lists cols true = Err.
Proof.
  intros Hne Hok (c & Hc & Hrag). destruct cols as [|c0 t]; [congruence|]. cbn [hd] in Hrag.
  rewrite m_pack_lists_unfold. cbv zeta.
  pose proof (pack_validate_iff c0 t n Hok) as HV. cbv zeta in HV.
  match goal with |- (if ?b then _ else _) = _ => destruct b eqn:E end; [|reflexivity].
  exfalso. apply Hrag. apply (proj1 HV eq_refl c Hc).
Qed.

Print Assumptions nrows_length.
Print Assumptions nrows_missing.
Print Assumptions bridge_row_lens.
Print Assumptions bridge_flat_field.
Print Assumptions bridge_list_index.
Print Assumptions bridge_width.
Print Assumptions abs_is_ok.
Print Assumptions pack_lists_abs.
Print Assumptions pack_lists_ragged_refused.

(* assembled: what the frame-level mechanisms start from, for a physical column satisfying the invariant *)
Lemma frame_views_are_c03_views p : inv_b p = true ->
  let L := abs p in
  row_lens (nrows_of L) = lrow_lengths L /\
  m_list_index (nrows_of L) = map Z.of_nat (spec_list_index L) /\
  (forall k, k < length (lcols L) -> flat_field k (nrows_of L) = nth k (spec_flat L) []).
Proof.
  intros H L. pose proof (abs_is_ok p H) as OK. split; [exact (bridge_row_lens L OK)|].
  split; [exact (bridge_list_index L OK)|]. intros k Hk. exact (bridge_flat_field L k OK Hk).
Qed.
