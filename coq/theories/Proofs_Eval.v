(* Proofs_Eval.v — eval on a nest (C13): the value of an expression is computed record by record on the flat view
   and carries the flat index; an assignment stores the values record by record, positionally, and leaves everything
   else alone; a multi-line program on the nested rows is the same program on the flat table. *)
From Coq Require Import String List Arith Bool ZArith Lia.
Import ListNotations.
From NP Require Import Base Values Arrow Frame.

(* all records of all rows have the same width w *)
Definition rows_width (w : nat) (rows : list nrow) : Prop :=
  Forall (fun r => Forall (fun rc : record => length rc = w) (recs r)) rows.

(* ---------- helpers: map2, m_flat ---------- *)
Lemma map2_nil_r {A B C} (f : A -> B -> C) l : map2 f l [] = [].
Proof. unfold map2. rewrite combine_nil. reflexivity. Qed.

Lemma map2_cons {A B C} (f : A -> B -> C) a l b l' : map2 f (a :: l) (b :: l') = f a b :: map2 f l l'.
Proof. reflexivity. Qed.

Lemma map2_length {A B C} (f : A -> B -> C) l l' : length (map2 f l l') = Nat.min (length l) (length l').
Proof. unfold map2. rewrite map_length. apply combine_length. Qed.

Lemma map2_app_split {A B C} (f : A -> B -> C) : forall l1 l2 vs,
  map2 f (l1 ++ l2) vs = map2 f l1 (firstn (length l1) vs) ++ map2 f l2 (skipn (length l1) vs).
Proof.
  induction l1 as [|a l1 IH]; intros l2 vs; [reflexivity|].
  destruct vs as [|v vs].
  - cbn [length firstn skipn]. rewrite !map2_nil_r. reflexivity.
  - cbn [length firstn skipn]. rewrite <- app_comm_cons, !map2_cons, IH. reflexivity.
Qed.

Lemma map2_map_same {A B C} (f : A -> B -> C) (g : A -> B) : forall l,
  map2 f l (map g l) = map (fun x => f x (g x)) l.
Proof. induction l as [|x t IH]; [reflexivity|]. cbn [map]. rewrite map2_cons, IH. reflexivity. Qed.

Lemma m_flat_cons r rows : m_flat (r :: rows) = recs r ++ m_flat rows.
Proof. reflexivity. Qed.

Lemma length_m_flat rows : length (m_flat rows) = sum (row_lens rows).
Proof.
  induction rows as [|r t IH]; [reflexivity|].
  rewrite m_flat_cons, app_length, IH. reflexivity.
Qed.

Lemma length_labels_flat (labels : list Z) (rows : list nrow) : length labels = length rows ->
  length (flat_repeat labels (row_lens rows)) = length (m_flat rows).
Proof.
  intro H. rewrite length_flat_repeat, length_m_flat; [reflexivity|].
  unfold row_lens. rewrite map_length. exact H.
Qed.

Lemma map_fst_combine {A B} : forall (l : list A) (l' : list B), length l = length l' ->
  map fst (combine l l') = l.
Proof.
  induction l as [|a l IH]; intros [|b l'] H; simpl in *; try lia; [reflexivity|].
  rewrite IH by lia. reflexivity.
Qed.

Lemma map_snd_combine {A B} : forall (l : list A) (l' : list B), length l = length l' ->
  map snd (combine l l') = l'.
Proof.
  induction l as [|a l IH]; intros [|b l'] H; simpl in *; try lia; [reflexivity|].
  rewrite IH by lia. reflexivity.
Qed.

(* value: one entry per flat record, in flat order, labelled with the label of its row *)
Lemma eval_value_length labels rows e : length labels = length rows ->
  length (m_eval_value labels rows e) = length (m_flat rows).
Proof.
  intro H. unfold m_eval_value.
  rewrite combine_length, map_length, length_labels_flat by exact H. apply Nat.min_id.
Qed.
Lemma eval_value_values labels rows e : length labels = length rows ->
  map snd (m_eval_value labels rows e) = map e (m_flat rows)
  /\ map fst (m_eval_value labels rows e) = flat_repeat labels (row_lens rows).
Proof.
  intro H. unfold m_eval_value.
  assert (L : length (flat_repeat labels (row_lens rows)) = length (map e (m_flat rows)))
    by (rewrite map_length; apply length_labels_flat; exact H).
  split; [apply map_snd_combine|apply map_fst_combine]; exact L.
Qed.

(* assignment: same rows, same missing rows, same number of records in every row *)
Lemma assign_rows_shape_le k : forall rows vals, length (m_flat rows) <= length vals ->
  map (option_map (@length record)) (assign_rows k rows vals) = map (option_map (@length record)) rows.
Proof.
  induction rows as [|[rs|] t IH]; intros vals H; [reflexivity| |].
  - rewrite m_flat_cons, app_length in H. cbn [recs] in H.
    cbn [assign_rows map option_map]. f_equal.
    + f_equal. rewrite map2_length, firstn_length. lia.
    + apply IH. rewrite skipn_length. lia.
  - rewrite m_flat_cons in H. cbn [recs app] in H.
    cbn [assign_rows map option_map]. f_equal. apply IH. exact H.
Qed.
Lemma assign_rows_shape k rows vals : length vals = length (m_flat rows) ->
  map (option_map (@length record)) (assign_rows k rows vals) = map (option_map (@length record)) rows.
Proof. intro H. apply assign_rows_shape_le. lia. Qed.

(* the flat view of the result is the flat view of the input with position k set record by record *)
Lemma assign_rows_flat_gen k : forall rows vals,
  m_flat (assign_rows k rows vals) = map2 (assign_rec k) (m_flat rows) vals.
Proof.
  induction rows as [|[rs|] t IH]; intro vals; [reflexivity| |].
  - cbn [assign_rows]. rewrite !m_flat_cons. cbn [recs].
    rewrite map2_app_split, IH. reflexivity.
  - cbn [assign_rows]. rewrite !m_flat_cons. cbn [recs app]. apply IH.
Qed.
Lemma assign_rows_flat k rows vals : length vals = length (m_flat rows) ->
  m_flat (assign_rows k rows vals) = map2 (assign_rec k) (m_flat rows) vals.
Proof. intros _. apply assign_rows_flat_gen. Qed.

(* position k holds the value, every other position is untouched, the width grows by one only for a new field *)
Lemma assign_rec_spec k r v : k <= length r ->
  nth k (assign_rec k r v) VNull = v
  /\ (forall j, j <> k -> j < length r -> nth j (assign_rec k r v) VNull = nth j r VNull)
  /\ length (assign_rec k r v) = (if k <? length r then length r else S (length r)).
Proof.
  intro Hk. unfold assign_rec. destruct (k <? length r) eqn:E.
  - apply Nat.ltb_lt in E.
    assert (Lf : length (firstn k r) = k) by (rewrite firstn_length; lia).
    split; [|split].
    + rewrite app_nth2 by lia. rewrite Lf, Nat.sub_diag. reflexivity.
    + intros j Hj Hlt. destruct (Nat.lt_ge_cases j k) as [Hjk|Hjk].
      * rewrite app_nth1 by lia.
        rewrite <- (firstn_skipn k r) at 2. rewrite app_nth1 by lia. reflexivity.
      * rewrite app_nth2 by lia. rewrite Lf.
        destruct (j - k) as [|d] eqn:Ed; [lia|]. cbn [nth].
        rewrite <- (firstn_skipn (S k) r) at 2.
        assert (Lf' : length (firstn (S k) r) = S k) by (rewrite firstn_length; lia).
        rewrite app_nth2 by lia. rewrite Lf'. f_equal. lia.
    + rewrite app_length. cbn [length]. rewrite Lf, skipn_length. lia.
  - apply Nat.ltb_ge in E. assert (k = length r) by lia. subst k.
    split; [|split].
    + rewrite app_nth2 by lia. rewrite Nat.sub_diag. reflexivity.
    + intros j _ Hlt. apply app_nth1. exact Hlt.
    + rewrite app_length. cbn [length]. lia.
Qed.

Lemma rows_width_flat w rows : rows_width w rows -> Forall (fun rc : record => length rc = w) (m_flat rows).
Proof.
  unfold rows_width. induction 1 as [|r t Hr Ht IH]; [constructor|].
  rewrite m_flat_cons. apply Forall_app. split; assumption.
Qed.

Lemma map_nth_assign_same w k : forall (fl : list record) vals,
  Forall (fun rc : record => length rc = w) fl -> k <= w -> length vals = length fl ->
  map (fun r => nth k r VNull) (map2 (assign_rec k) fl vals) = vals.
Proof.
  induction fl as [|r t IH]; intros [|v vs] HF Hk HL; simpl in HL; try lia; [reflexivity|].
  inversion HF as [|? ? Hr Ht]; subst.
  rewrite map2_cons. cbn [map]. f_equal.
  - apply (assign_rec_spec k r v). lia.
  - apply IH; [exact Ht|exact Hk|lia].
Qed.

Lemma map_nth_assign_other w k j : forall (fl : list record) vals,
  Forall (fun rc : record => length rc = w) fl -> k <= w -> j <> k -> j < w -> length vals = length fl ->
  map (fun r => nth j r VNull) (map2 (assign_rec k) fl vals) = map (fun r => nth j r VNull) fl.
Proof.
  induction fl as [|r t IH]; intros [|v vs] HF Hk Hjk Hj HL; simpl in HL; try lia; [reflexivity|].
  inversion HF as [|? ? Hr Ht]; subst.
  rewrite map2_cons. cbn [map]. f_equal.
  - apply (assign_rec_spec k r v); lia.
  - apply IH; [exact Ht|exact Hk|exact Hjk|exact Hj|lia].
Qed.

(* hence: the assigned field, read back on the flat view, is exactly the list of values *)
Theorem assigned_field_holds_values w k rows vals : rows_width w rows -> k <= w -> length vals = length (m_flat rows) ->
  map (fun r => nth k r VNull) (m_flat (assign_rows k rows vals)) = vals.
Proof.
  intros HW Hk HL. rewrite assign_rows_flat by exact HL.
  apply (map_nth_assign_same w); [apply rows_width_flat; exact HW|exact Hk|exact HL].
Qed.
Theorem other_fields_untouched w k j rows vals : rows_width w rows -> k <= w -> j <> k -> j < w ->
  length vals = length (m_flat rows) ->
  map (fun r => nth j r VNull) (m_flat (assign_rows k rows vals)) = map (fun r => nth j r VNull) (m_flat rows).
Proof.
  intros HW Hk Hjk Hj HL. rewrite assign_rows_flat by exact HL.
  apply (map_nth_assign_other w); [apply rows_width_flat; exact HW|exact Hk|exact Hjk|exact Hj|exact HL].
Qed.
Theorem wrong_length_refused k rows vals : length vals <> length (m_flat rows) -> m_eval_assign k rows vals = Err.
Proof.
  intro H. unfold m_eval_assign. apply Nat.eqb_neq in H. rewrite H. reflexivity.
Qed.

(* multi-line programs: every line sees the fields assigned by the earlier ones, exactly as on the flat table *)
Theorem program_on_flat prog rows : m_flat (m_eval_program prog rows) = flat_program prog (m_flat rows).
Proof.
  unfold m_eval_program, flat_program. revert rows.
  induction prog as [|[k e] t IH]; intro rows; [reflexivity|].
  cbn [fold_left fst snd]. rewrite IH. f_equal.
  rewrite assign_rows_flat_gen. apply map2_map_same.
Qed.
Theorem program_shape prog rows :
  map (option_map (@length record)) (m_eval_program prog rows) = map (option_map (@length record)) rows.
Proof.
  unfold m_eval_program. revert rows.
  induction prog as [|[k e] t IH]; intro rows; [reflexivity|].
  cbn [fold_left fst snd]. rewrite IH. apply assign_rows_shape. apply map_length.
Qed.

Print Assumptions eval_value_length.
Print Assumptions eval_value_values.
Print Assumptions assign_rows_shape.
Print Assumptions assign_rows_flat.
Print Assumptions assign_rec_spec.
Print Assumptions assigned_field_holds_values.
Print Assumptions other_fields_untouched.
Print Assumptions wrong_length_refused.
Print Assumptions program_on_flat.
Print Assumptions program_shape.
