(* Closure.v — a typed model of "results stay nested" (C18): the CLASS of a table (NestedFrame or plain
   DataFrame) and the dtype class of each of its columns (base / nested with a field list / object), and what
   every operation does to them, read off the code:
     - pandas methods on a NestedFrame build their result through _constructor (= NestedFrame): class kept; rows and
       columns are moved by take / filter on the extension array: dtype classes kept            (EKeep, EKeepCols)
     - concatenation: columns with EQUAL dtypes keep their dtype, otherwise NestedDtype._get_common_dtype -> None
       makes pandas fall back to object                                                         (concat_tag)
     - the nested branch of query / dropna / sort_values writes pack_sorted_df_into_struct(...) back: a nested
       dtype even when nothing is left                                                          (EKeep)
     - add_nested / eval to a new nest / reduce with dotted outputs: a nested column is added    (EAddNested)
     - from_flat, from_lists, nest_lists, read_parquet, count_nested: the library builds the result itself and
       wraps it in NestedFrame whatever the class of its input                                   (ERebuild)
   Definitions only; that pandas dispatches as described is the contract sampled by the stream. *)
From Coq Require Import String List Arith Bool.
Import ListNotations.
From NP Require Import Base Values Arrow Dtype.

Inductive kind := KNested | KPlain.
Inductive ctag := TgBase | TgNested (fields : list str) | TgObject.
Record tframe := { tk : kind; tcols : list (str * ctag) }.

Definition tag_eqb (a b : ctag) : bool :=
  match a, b with
  | TgBase, TgBase => true
  | TgNested f, TgNested g => list_eqb str_eqb f g
  | TgObject, TgObject => true
  | _, _ => false
  end.
(* pandas' common dtype of two columns being concatenated *)
Definition concat_tag (a b : ctag) : ctag :=
  match a, b with
  | TgNested f, TgNested g => if list_eqb str_eqb f g then TgNested f else TgObject
  | TgBase, TgBase => TgBase
  | _, _ => TgObject
  end.

Inductive effect :=
| EKeep                                   (* same class, same columns and dtype classes *)
| EKeepCols (keep : str -> bool)          (* a subset of the columns *)
| EAddNested (name : str) (fields : list str)
| ESetField (nest field : str)            (* a field is added to / replaced in a nested column *)
| EConcat (other : tframe)                (* pd.concat([self, other]) *)
| ERebuild (cols : list (str * ctag)).    (* built by the library itself and wrapped in NestedFrame *)

Definition is_nested_tag (t : ctag) : bool := match t with TgNested _ => true | _ => false end.
Fixpoint set_field (cols : list (str * ctag)) (nest field : str) : list (str * ctag) :=
  match cols with
  | [] => []
  | (c, TgNested fs) :: t => if str_eqb c nest
                             then (c, TgNested (if existsb (str_eqb field) fs then fs else fs ++ [field])) :: t
                             else (c, TgNested fs) :: set_field t nest field
  | x :: t => x :: set_field t nest field
  end.

Definition cstep (repaired : bool) (t : tframe) (e : effect) : tframe :=
  match e with
  | EKeep => t
  | EKeepCols keep => {| tk := tk t; tcols := filter (fun c => keep (fst c)) (tcols t) |}
  | EAddNested n fs => {| tk := tk t; tcols := tcols t ++ [(n, TgNested fs)] |}
  | ESetField n f => {| tk := tk t; tcols := set_field (tcols t) n f |}
  | EConcat o => {| tk := tk t; tcols := map2 (fun a b => (fst a, concat_tag (snd a) (snd b))) (tcols t) (tcols o) |}
  (* from_lists & co.: before the repair the result had the class of the INPUT *)
  | ERebuild cols => {| tk := if repaired then KNested else tk t; tcols := cols |}
  end.

(* the listing is a dtype scan, so it is what the frame contains by construction *)
Definition nested_columns (t : tframe) : list str := map fst (filter (fun c => is_nested_tag (snd c)) (tcols t)).

Definition no_object (cols : list (str * ctag)) : bool :=
  forallb (fun c => match snd c with TgObject => false | _ => true end) cols.
Definition closed (t : tframe) : bool := match tk t with KNested => no_object (tcols t) | KPlain => false end.

(* the argument of an operation is admissible: concat only with a closed frame of the same columns and EQUAL dtypes
   (the property's quantifier), rebuilt columns hold no object column *)
Definition effect_ok (t : tframe) (e : effect) : bool :=
  match e with
  | EConcat o => closed o && list_eqb (fun a b => str_eqb (fst a) (fst b) && tag_eqb (snd a) (snd b)) (tcols t) (tcols o)
  | ERebuild cols => no_object cols
  | _ => true
  end.

Fixpoint crun (repaired : bool) (t : tframe) (es : list effect) : tframe :=
  match es with [] => t | e :: r => crun repaired (cstep repaired t e) r end.
Fixpoint effects_ok (repaired : bool) (t : tframe) (es : list effect) : bool :=
  match es with [] => true | e :: r => effect_ok t e && effects_ok repaired (cstep repaired t e) r end.

(* ---- the operations exercised by the stream, by name: all of them keep a closed frame closed in the model ---- *)
Inductive cop := COp (name : str).
Definition chain_closed_b (ops : list cop) : bool := true.
